"""C14: contracts of the MPS writer (op.tofile) and reader (op.fromfile).

FIXED FORMAT (the definition both functions are checked against; 0-based
half-open column ranges of a data line):

    field 1  [1, 3)    row type / bound type
    field 2  [4, 12)   name (column label; RHS / RANGES / BOUNDS set label)
    field 3  [14, 22)  name (row label; column label in BOUNDS)
    field 4  [24, 36)  number
    field 5  [39, 47)  name (second row label)
    field 6  [49, 61)  number

Writer contract (for all names, all index values below 10^7, all finite
coefficients), per line shape that tofile can write:
  layout        every non-blank segment lies inside the field the section
                assigns to it (ROWS: type, row label; COLUMNS: column label,
                row label, number; RHS: row label in field 3, number; BOUNDS:
                type, column label in field 3; NAME: name in [14, 22))
  label-form    every row / column label is  base[:7 - len(str(i))] + '_' +
                str(i)  with ONE index i, and base is the name of (or, for an
                unnamed one, the position of) a constraint resp. variable --
                the same function in ROWS, COLUMNS, RHS resp. COLUMNS, BOUNDS,
                so the sections refer to the same rows and columns
  label-injective   distinct names give distinct labels (needed for "distinct
                names => same number of rows after the round trip")
  refuses-non-lp    nothing is opened or written unless self._islp()
Reader contract:
  reader-field  every slice of the line that is stripped or converted is one
                of the fields above, of the right kind for its section, and
                the fields a section needs are read
  roundtrip-field   every segment the writer puts into field F of section S is
                read back from exactly F by the reader in S with the matching
                conversion
"""
import z3
from engine import mpsvc
from engine.mpsvc import (Const, Sym, StrOf, Cat, Prefix, RJust, Num, IntTerm)

FIELDS = {1: (1, 3), 2: (4, 12), 3: (14, 22), 4: (24, 36), 5: (39, 47),
          6: (49, 61)}
ROWTYPES = ('N', 'L', 'G', 'E')
BOUNDTYPES = ('LO', 'UP', 'FX', 'FR', 'MI', 'PL')

# section -> expected segments in order: (kind, field, role)
WRITER_LINES = {
    'NAME': [('text', (0, 4), 'keyword'), ('label', (14, 22), 'name')],
    'ROWS': [('text', FIELDS[1], 'rowtype'), ('label', FIELDS[2], 'row')],
    'COLUMNS': [('label', FIELDS[2], 'column'), ('label', FIELDS[3], 'row'),
                ('number', FIELDS[4], 'value')],
    'RHS': [('label', FIELDS[3], 'row'), ('number', FIELDS[4], 'value')],
    'BOUNDS': [('text', FIELDS[1], 'boundtype'),
               ('label', FIELDS[3], 'column')],
}

# what the reader may / must read per section: (a, b, use)
READER_FIELDS = {
    'ROWS': {'may': [(1, 3, 'label'), (4, 12, 'label')],
             'must': [(1, 3, 'label'), (4, 12, 'label')]},
    'COLUMNS': {'may': [(4, 12, 'label'), (14, 22, 'label'),
                        (24, 36, 'number'), (39, 47, 'label'),
                        (49, 61, 'number')],
                'must': [(4, 12, 'label'), (14, 22, 'label'),
                         (24, 36, 'number'), (39, 47, 'label'),
                         (49, 61, 'number')]},
    'RHS': {'may': [(4, 12, 'label'), (14, 22, 'label'), (24, 36, 'number'),
                    (39, 47, 'label'), (49, 61, 'number')],
            'must': [(14, 22, 'label'), (24, 36, 'number'),
                     (39, 47, 'label'), (49, 61, 'number')]},
    'RANGES': {'may': [(4, 12, 'label'), (14, 22, 'label'),
                       (24, 36, 'number'), (39, 47, 'label'),
                       (49, 61, 'number')],
               'must': [(14, 22, 'label'), (24, 36, 'number'),
                        (39, 47, 'label'), (49, 61, 'number')]},
    'BOUNDS': {'may': [(1, 3, 'label'), (4, 12, 'label'), (14, 22, 'label'),
                       (24, 36, 'number')],
               'must': [(1, 3, 'label'), (14, 22, 'label'),
                        (24, 36, 'number')]},
    'NAME': {'may': [(14, 22, 'label')], 'must': [(14, 22, 'label')]},
}


def strip_just(t, L, facts):
    """the label as the reader sees it after strip(): right-justification
    and a [:8] that cannot cut anything are removed"""
    changed = True
    while changed:
        changed = False
        if isinstance(t, RJust):
            t, changed = t.a, True
        elif isinstance(t, Prefix) and t.n.op == 'const':
            s = z3.Solver()
            s.set('timeout', 5000)
            ln = L.length(t.a)
            for f in L.facts + facts:
                s.add(f)
            s.add(ln > t.n.a[0])
            if s.check() == z3.unsat:
                t, changed = t.a, True
        elif isinstance(t, Cat) and len(t.parts) == 1:
            t, changed = t.parts[0], True
    return t


def label_form(t):
    """-> (base term, index IntTerm) if t is base[:7-len(str(i))] + '_' +
    str(i) with the same i in both places, else (None, reason)"""
    if not isinstance(t, Cat) or len(t.parts) != 3:
        return None, 'the label is not prefix + "_" + index'
    p, u, d = t.parts
    if not (isinstance(u, Const) and u.s == '_'):
        return None, 'the separator is not "_"'
    if not isinstance(d, StrOf):
        return None, 'the suffix is not str(index)'
    if not isinstance(p, Prefix):
        return None, 'the base is not truncated'
    n = p.n
    ok = (n.op == 'sub' and n.a[0].op == 'const' and n.a[0].a[0] == 7 and
          n.a[1].op == 'len' and isinstance(n.a[1].a[0], StrOf))
    if not ok:
        return None, 'the base is not truncated to 7 - len(str(index))'
    if n.a[1].a[0].iv.key() != d.iv.key():
        return None, ('the base is truncated for index %s but index %s is '
                      'appended' % (n.a[1].a[0].iv.key(), d.iv.key()))
    return p.a, d.iv


def base_form(b, container):
    """base is the name of container[K] or str(K)"""
    if isinstance(b, Sym) and b.attr == 'name':
        o = b.obj
        if isinstance(o, tuple) and o[0] == 'elem' and o[1] == container:
            return True, ('name', o[2])
        return False, 'the name used is %r, not the name of an element of ' \
            '%s' % (o, container)
    if isinstance(b, StrOf):
        return True, ('index', b.iv.key())
    return False, 'the base is neither a name nor str(position)'


def to_seq(t, names):
    """z3 string term of a label term (for the injectivity search)"""
    if isinstance(t, Const):
        return z3.StringVal(t.s)
    if isinstance(t, Sym):
        return names.setdefault(t.key(), z3.String('name%d' % len(names)))
    if isinstance(t, StrOf):
        return z3.IntToStr(names.setdefault(
            ('int', t.iv.key()), z3.Int('idx%d' % len(names))))
    if isinstance(t, Cat):
        r = to_seq(t.parts[0], names)
        for p in t.parts[1:]:
            r = z3.Concat(r, to_seq(p, names))
        return r
    if isinstance(t, Prefix):
        a = to_seq(t.a, names)
        n = int_seq(t.n, names)
        return z3.SubString(a, 0, n)
    if isinstance(t, RJust):
        return to_seq(t.a, names)
    raise mpsvc.Unsupported('no string encoding for %r' % (t,))


def int_seq(n, names):
    if n.op == 'const':
        return z3.IntVal(n.a[0])
    if n.op == 'sub':
        return int_seq(n.a[0], names) - int_seq(n.a[1], names)
    if n.op == 'add':
        return int_seq(n.a[0], names) + int_seq(n.a[1], names)
    if n.op == 'len':
        return z3.Length(to_seq(n.a[0], names))
    if n.op == 'var':
        return names.setdefault(('int', n.key()), z3.Int('idx%d' %
                                                         len(names)))
    raise mpsvc.Unsupported('int term')


def obligations(repo=None, timeout_ms=10000):
    """-> (list of obligation dicts, info).  Obligation: id, kind, status
    (proved | refuted | undecided), text, line, model, by"""
    tree, src = mpsvc.load('modeling.py', repo)
    obs = []
    info = {'functions': [], 'lines': 0, 'reader_uses': 0, 'solver_s': 0.0}

    def add(oid, kind, status, text, line=0, model=None, detail=None,
            by=None):
        obs.append({'id': 'modeling.py:' + oid, 'kind': kind,
                    'status': status, 'text': text, 'line': line,
                    'model': model, 'detail': detail,
                    'by': by or (['z3'] if status == 'proved' else [])})

    import time

    def prove(L, goal, extra=()):
        t0 = time.time()
        s = z3.Solver()
        s.set('timeout', timeout_ms)
        for f in L.facts:
            s.add(f)
        for f in extra:
            s.add(f)
        if s.check() != z3.sat:
            info['solver_s'] += time.time() - t0
            return 'undecided', None     # vacuous hypotheses
        s.add(z3.Not(goal))
        r = s.check()
        info['solver_s'] += time.time() - t0
        if r == z3.unsat:
            return 'proved', None
        if r == z3.sat:
            m = s.model()
            return 'refuted', {str(d): str(m[d]) for d in m.decls()}
        return 'undecided', None

    wfn = mpsvc.find_method(tree, 'op', 'tofile')
    rfn = mpsvc.find_method(tree, 'op', 'fromfile')
    if wfn is None or rfn is None:
        raise KeyError('op.tofile / op.fromfile not found')
    info['functions'] = ['modeling.py:op.tofile', 'modeling.py:op.fromfile']
    # ---- refuses-non-lp
    first = [s for s in wfn.body if not (isinstance(s, mpsvc.ast.Expr) and
                                         isinstance(s.value,
                                                    mpsvc.ast.Constant))]
    ok = False
    if first:
        s0 = first[0]
        seg = mpsvc.ast.get_source_segment(src, s0) or ''
        ok = (isinstance(s0, mpsvc.ast.If) and '_islp()' in (
            mpsvc.ast.get_source_segment(src, s0.test) or '') and
            isinstance(s0.test, mpsvc.ast.UnaryOp) and
            isinstance(s0.test.op, mpsvc.ast.Not) and
            len(s0.body) == 1 and isinstance(s0.body[0], mpsvc.ast.Raise)
            and 'TypeError' in seg and not s0.orelse)
    add('op.tofile:refuses-non-lp', 'refuses-non-lp',
        'proved' if ok else 'refuted',
        'the first statement of tofile raises TypeError unless '
        'self._islp() (before the file is opened)',
        first[0].lineno if first else 0, by=['syntactic'])
    # ---- writer
    try:
        w = mpsvc.WriterExec(wfn, src)
        w.run()
    except mpsvc.Unsupported as e:
        add('op.tofile:supported', 'engine', 'undecided',
            'tofile is inside the subset the layout executor supports',
            detail=str(e))
        return obs, info
    L = mpsvc.Lengths()
    # number-width: '% 7.5E' % x is 12 characters wide (sign, d.ddddd, E,
    # sign, two exponent digits) unless the exponent needs three digits.
    # Stated once, then assumed in the layout obligations (assert-then-
    # assume), so that the layout is examined where the format fits.
    nums = {}
    for ln in w.lines:
        for p_ in ln.pieces:
            if isinstance(p_, Num):
                nums[p_.key()] = p_
    width_ok = []
    for k_, p_ in sorted(nums.items(), key=str):
        width_ok.append(L.length(p_) == 12)
    if nums:
        st, model = prove(L, z3.And(width_ok))
        add('op.tofile:number-width', 'number-width', st,
            "every coefficient / right-hand side is written by '% 7.5E' in "
            'exactly 12 characters (the width of a number field)', 0, model)
        L.facts.extend(width_ok)
    shapes = {}
    for ln in w.lines:
        k = (ln.section, tuple(p.key() for p in ln.pieces))
        shapes.setdefault(k, ln)
    info['lines'] = len(shapes)
    counters = {}
    written = {}          # section -> set of (a, b, use)
    labels = {'row': [], 'column': []}
    for (sec, _), ln in shapes.items():
        n = counters.get(sec, 0)
        counters[sec] = n + 1
        sid = '%s#%d' % (sec, n)
        spec = WRITER_LINES.get(sec)
        if spec is None:
            add('op.tofile:layout:%s' % sid, 'layout', 'refuted',
                'no data line is written in section %s' % sec, ln.lineno)
            continue
        segs, total = mpsvc.segments(ln, L)
        if sec == 'NAME' and len(segs) == 1:
            spec = spec[:1]
        if len(segs) != len(spec) or any(
                s_[0] != e_[0] for s_, e_ in zip(segs, spec)):
            add('op.tofile:layout:%s' % sid, 'layout', 'refuted',
                'a %s line consists of %s (it has %s)' % (
                    sec, ', '.join(e_[2] for e_ in spec),
                    ', '.join(s_[0] for s_ in segs)), ln.lineno)
            continue
        for (kind, a, b, term), (ekind, (fa, fb), role) in zip(segs, spec):
            st, model = prove(L, z3.And(a >= fa, b <= fb))
            add('op.tofile:layout:%s:%s' % (sid, role), 'layout', st,
                'the %s of a %s line is written inside columns [%d, %d)' % (
                    role, sec, fa, fb), ln.lineno, model)
            written.setdefault(sec, set()).add((
                fa, fb, 'number' if kind == 'number' else 'label'))
            if kind == 'text' and role == 'rowtype':
                add('op.tofile:layout:%s:rowtype-letter' % sid, 'layout',
                    'proved' if term in ROWTYPES else 'refuted',
                    'the row type written is one of N, L, G, E (%r)' % term,
                    ln.lineno, by=['syntactic'])
            if kind == 'text' and role == 'boundtype':
                add('op.tofile:layout:%s:boundtype-letter' % sid, 'layout',
                    'proved' if term in BOUNDTYPES else 'refuted',
                    'the bound type written is one of LO UP FX FR MI PL '
                    '(%r)' % term, ln.lineno, by=['syntactic'])
            if role in ('row', 'column'):
                labels[role].append((sid, ln, strip_just(term, L, [])))
    # ---- label functions
    forms = {'row': set(), 'column': set()}
    for role, cont in (('row', 'constraints'), ('column', 'variables')):
        for sid, ln, t in labels[role]:
            if isinstance(t, Const):
                # the objective row
                add('op.tofile:label-form:%s:%s' % (sid, role), 'label-form',
                    'proved' if (role == 'row' and t.s == 'cost') else
                    'refuted', 'a constant %s label is the objective row '
                    '"cost" (%r)' % (role, t.s), ln.lineno, by=['syntactic'])
                continue
            base, idx = label_form(t)
            if base is None:
                add('op.tofile:label-form:%s:%s' % (sid, role), 'label-form',
                    'refuted', 'the %s label of a %s line is base[:7 - '
                    'len(str(i))] + "_" + str(i) for one index i: %s' % (
                        role, sid.split('#')[0], idx), ln.lineno,
                    by=['syntactic'])
                continue
            okb, why = base_form(strip_just(base, L, []), cont)
            add('op.tofile:label-form:%s:%s' % (sid, role), 'label-form',
                'proved' if okb else 'refuted',
                'the %s label of a %s line is base[:7 - len(str(i))] + "_" '
                '+ str(i) for one index i, base = name or position of an '
                'element of %s%s' % (role, sid.split('#')[0], cont,
                                     '' if okb else ': ' + str(why)),
                ln.lineno, by=['syntactic'])
            if okb:
                forms[role].add(why[0])
    # ---- which entries are written (coefficient shapes)
    entries_obligations(w, L, add, prove)
    # ---- injectivity of the label function on names (string theory, the
    # solver is only asked for a counterexample)
    for role in ('row', 'column'):
        cand = [t for sid, ln, t in labels[role] if not isinstance(t, Const)
                and label_form(t)[0] is not None and isinstance(
                    strip_just(label_form(t)[0], L, []), Sym)]
        if not cand:
            continue
        t = cand[0]
        n1, n2 = {}, {}
        s1, s2 = to_seq(t, n1), to_seq(t, n2)
        # rename the symbols of the second copy
        sub = []
        for k, v in n2.items():
            v2 = z3.String(str(v) + "'") if z3.is_string(v) else \
                z3.Int(str(v) + "'")
            sub.append((v, v2))
        s2 = z3.substitute(s2, *sub)
        names1 = [v for v in n1.values() if z3.is_string(v)]
        names2 = [v2 for v, v2 in sub if z3.is_string(v2)]
        ints1 = [v for v in n1.values() if not z3.is_string(v)]
        ints2 = [v2 for v, v2 in sub if not z3.is_string(v2)]
        s = z3.Solver()
        s.set('timeout', timeout_ms)
        for v in names1 + names2:
            s.add(z3.Length(v) >= 1, z3.Length(v) <= 10)
            s.add(z3.Not(z3.Contains(v, z3.StringVal(' '))))
        for a_, b_ in zip(ints1, ints2):
            s.add(a_ >= 0, a_ <= 3, a_ == b_)
        s.add(z3.Or([a_ != b_ for a_, b_ in zip(names1, names2)]))
        s.add(s1 == s2)
        t0 = time.time()
        r = s.check()
        info['solver_s'] += time.time() - t0
        if r == z3.sat:
            m = s.model()
            model = {str(d): str(m[d]) for d in m.decls()}
            st = 'refuted'
        elif r == z3.unsat:
            st, model = 'undecided', None    # bounded search only
        else:
            st, model = 'undecided', None
        add('op.tofile:label-injective:%s' % role, 'label-injective', st,
            'two different %s names give different %s labels for the same '
            'component index' % ('constraint' if role == 'row' else
                                 'variable', role), 0, model,
            detail='names of length <= 10 searched' if st == 'undecided'
            else None)
    # ---- reader
    rs = mpsvc.ReaderScan(rfn, src)
    info['reader_uses'] = len(rs.uses)
    read = {}
    for sec, a, b, use, lineno in rs.uses:
        sec = sec or 'NAME'
        if use not in ('label', 'number'):
            continue
        read.setdefault(sec, set()).add((a, b, use))
        may = READER_FIELDS.get(sec, {}).get('may', [])
        add('op.fromfile:reader-field:%s:%s:%s-%s' % (sec, use, a, b),
            'reader-field', 'proved' if (a, b, use) in may else 'refuted',
            'in section %s the reader takes a %s from columns [%s, %s), '
            'which is a %s field of the fixed format' % (sec, use, a, b,
                                                         use), lineno,
            by=['syntactic'])
    for sec, d in READER_FIELDS.items():
        for (a, b, use) in d['must']:
            add('op.fromfile:reader-field:%s:reads:%s-%s' % (sec, a, b),
                'reader-field', 'proved' if (a, b, use) in read.get(
                    sec, ()) else 'refuted',
                'in section %s the reader reads the %s field [%d, %d)' % (
                    sec, use, a, b), 0, by=['syntactic'])
    # ---- round trip of fields
    for sec, fs in written.items():
        for (a, b, use) in sorted(fs):
            if sec == 'NAME' and (a, b) == (0, 4):
                continue
            add('roundtrip-field:%s:%s-%s' % (sec, a, b), 'roundtrip-field',
                'proved' if (a, b, use) in read.get(sec, ()) else 'refuted',
                'what tofile writes into columns [%d, %d) of a %s line is '
                'read back from exactly these columns as a %s' % (
                    a, b, sec, use), 0, by=['syntactic'])
    return obs, info


# ---------------------------------------------------------------- entries
# Which entries tofile writes in COLUMNS (and RHS) for each shape of a
# coefficient.  A function of length m has, for a variable v of length n, a
# coefficient of size (m, n), (1, n) (the same row for every component) or
# (1, 1) (a scalar: a*v with m = n, or broadcast if n = 1); modeling.rst /
# _lin._coeff.  Contract: for every row R < m and component i < n the line
# (column (v,i), row (c,R), value) is written iff the coefficient of x_{v,i}
# in row R is nonzero, and the value written is that coefficient.
class Tr:
    """translation of the guard / index / value expressions of tofile into
    z3 over the symbolic sizes"""
    def __init__(self, env):
        self.env = env
        self.m, self.n = z3.Int('len(c)'), z3.Int('len(v)')
        self.r, self.cd = z3.Int('cf.rows'), z3.Int('cf.cols')
        self.cs = z3.Int('const.rows')
        self.cfv = z3.Function('cf', z3.IntSort(), z3.IntSort(),
                               z3.RealSort())
        self.constv = z3.Function('const', z3.IntSort(), z3.RealSort())
        self.inC = z3.Bool('v in coefficients of c')
        self.free = {}

    def role(self, name):
        v = self.env.get(name)
        if isinstance(v, mpsvc.Elem):
            return {'constraints': 'c', 'variables': 'v'}.get(v.cont)
        if isinstance(v, mpsvc.Opaque):
            s = v.src.replace(' ', '')
            if s.endswith('._linear._coeff[v]') and s.startswith('c.'):
                return 'cf'
            if s.endswith('._constant') and 'c._f' in s:
                return 'const'
        return None

    def var(self, name):
        return z3.Int('loop:' + name)

    def t(self, n):
        A = mpsvc.ast
        if isinstance(n, A.Constant):
            if isinstance(n.value, bool):
                return z3.BoolVal(n.value)
            if isinstance(n.value, int):
                return z3.IntVal(n.value)
            if isinstance(n.value, float):
                return z3.RealVal(n.value)
            raise mpsvc.Unsupported('constant %r' % (n.value,))
        if isinstance(n, A.Name):
            v = self.env.get(n.id)
            if isinstance(v, IntTerm) and v.op == 'var':
                return self.var(n.id)
            raise mpsvc.Unsupported('name %s' % n.id)
        if isinstance(n, A.Tuple):
            return tuple(self.t(e) for e in n.elts)
        if isinstance(n, A.Call) and isinstance(n.func, A.Name):
            if n.func.id == 'len' and isinstance(n.args[0], A.Name):
                ro = self.role(n.args[0].id)
                if ro == 'c':
                    return self.m
                if ro == 'v':
                    return self.n
            if n.func.id == '_isscalar' and isinstance(n.args[0], A.Name) \
                    and self.role(n.args[0].id) == 'cf':
                return z3.And(self.r == 1, self.cd == 1)
            raise mpsvc.Unsupported('call ' + A.unparse(n))
        if isinstance(n, A.Attribute) and n.attr == 'size' and isinstance(
                n.value, A.Name):
            ro = self.role(n.value.id)
            if ro == 'cf':
                return (self.r, self.cd)
            if ro == 'const':
                return (self.cs, z3.IntVal(1))
            raise mpsvc.Unsupported('size of ' + n.value.id)
        if isinstance(n, A.Attribute) and n.attr == 'name':
            return self.free.setdefault(A.unparse(n), z3.Bool(
                'truth:' + A.unparse(n)))
        if isinstance(n, A.Subscript):
            base = n.value
            if isinstance(base, A.Attribute) and base.attr == 'size':
                tup = self.t(base)
                ix = self.t(n.slice)
                if z3.is_int_value(ix):
                    return tup[ix.as_long()]
            if isinstance(base, A.Name):
                ro = self.role(base.id)
                ix = self.t(n.slice)
                if ro == 'cf' and isinstance(ix, tuple) and len(ix) == 2:
                    return self.cfv(ix[0], ix[1])
                if ro == 'const' and not isinstance(ix, tuple):
                    return self.constv(ix)
            raise mpsvc.Unsupported('subscript ' + A.unparse(n))
        if isinstance(n, A.Compare) and len(n.ops) == 1:
            op = n.ops[0]
            if isinstance(op, A.In):
                s_ = A.unparse(n).replace(' ', '')
                if s_ == 'vinc._f._linear._coeff':
                    return self.inC
                return self.free.setdefault(s_, z3.Bool('truth:' + s_))
            a, b = self.t(n.left), self.t(n.comparators[0])
            if isinstance(a, tuple) or isinstance(b, tuple):
                if not (isinstance(a, tuple) and isinstance(b, tuple) and
                        len(a) == len(b)):
                    raise mpsvc.Unsupported('tuple comparison')
                e = z3.And([self.num(x) == self.num(y)
                            for x, y in zip(a, b)])
                if isinstance(op, A.Eq):
                    return e
                if isinstance(op, A.NotEq):
                    return z3.Not(e)
                raise mpsvc.Unsupported('tuple order')
            a, b = self.num2(a, b)
            return {A.Eq: a == b, A.NotEq: a != b, A.Lt: a < b,
                    A.LtE: a <= b, A.Gt: a > b, A.GtE: a >= b}[type(op)]
        if isinstance(n, A.UnaryOp) and isinstance(n.op, A.Not):
            return z3.Not(self.t(n.operand))
        if isinstance(n, A.BoolOp):
            vs = [self.t(v) for v in n.values]
            return z3.And(vs) if isinstance(n.op, A.And) else z3.Or(vs)
        raise mpsvc.Unsupported('expression ' + A.unparse(n))

    def num(self, x):
        return x

    def num2(self, a, b):
        if z3.is_int(a) and z3.is_real(b):
            a = z3.ToReal(a)
        if z3.is_real(a) and z3.is_int(b):
            b = z3.ToReal(b)
        return a, b

    def truth(self, n):
        v = self.t(n)
        if z3.is_bool(v):
            return v
        if z3.is_int(v) or z3.is_real(v):
            return v != 0
        raise mpsvc.Unsupported('truth of ' + mpsvc.ast.unparse(n))

    def domain(self, target, it, env):
        """constraint on the loop variable of `for target in it`"""
        A = mpsvc.ast
        if not isinstance(target, A.Name):
            raise mpsvc.Unsupported('loop target')
        x = self.var(target.id)
        if isinstance(it, A.Call) and isinstance(it.func, A.Name) and \
                it.func.id == 'range' and len(it.args) == 1:
            return z3.And(x >= 0, x < self.t(it.args[0]))
        if isinstance(it, A.Name):
            v = env.get(it.id)
            if isinstance(v, mpsvc.Opaque):
                try:
                    e = A.parse(v.src.strip(), mode='eval').body
                except SyntaxError:
                    e = None
                if isinstance(e, A.ListComp) and len(e.generators) == 1 and \
                        isinstance(e.elt, A.Name) and isinstance(
                            e.generators[0].target, A.Name) and \
                        e.elt.id == e.generators[0].target.id:
                    g = e.generators[0]
                    k = g.target.id
                    sub = Tr(dict(self.env))
                    sub.__dict__.update({k_: v_ for k_, v_ in
                                         self.__dict__.items()
                                         if k_ != 'env'})
                    sub.env = dict(self.env)
                    sub.env[k] = IntTerm('var', k)
                    d = sub.domain(g.target, g.iter, env)
                    conds = [sub.truth(c_) for c_ in g.ifs]
                    f = z3.And([d] + conds)
                    return z3.substitute(f, (sub.var(k), x))
        raise mpsvc.Unsupported('loop domain ' + A.unparse(it))


def entries_obligations(w, L, add, prove):
    A = mpsvc.ast
    for sec, anchor in (('COLUMNS', 'constraints'), ('RHS', 'constraints')):
        shapes = []
        seen = set()
        for ln in w.lines:
            if ln.section != sec:
                continue
            nums = [p for p in ln.pieces if isinstance(p, Num)]
            segs, _ = mpsvc.segments(ln, L)
            labs = [strip_just(t_, L, []) for k_, a_, b_, t_ in segs
                    if k_ == 'label']
            rowlab = labs[-1] if labs else None
            if not nums or rowlab is None or isinstance(rowlab, Const):
                continue
            base, idx = label_form(rowlab)
            if base is None:
                continue
            key = (ln.lineno,)
            if key in seen:
                continue
            seen.add(key)
            # the constructs that enclose the write, from the loop over the
            # constraints inwards
            ctx = list(ln.ctx)
            start = None
            for q, c_ in enumerate(ctx):
                if c_[0] == 'for' and 'constraints' in A.unparse(c_[2]):
                    start = q
            if start is None:
                continue
            shapes.append((ln, nums[0], idx, ctx[start + 1:]))
        if not shapes:
            add('op.tofile:entries:%s:shapes' % sec, 'entries', 'undecided',
                'the %s lines of the constraints were identified' % sec)
            continue
        R = z3.Int('R')
        V = z3.Real('V')
        written = []
        try:
            tr0 = None
            for ln, num, idx, ctx in shapes:
                tr = Tr(num.env or {})
                tr0 = tr0 or tr
                conj = []
                qv = []
                for c_ in ctx:
                    if c_[0] == 'if':
                        tt = Tr(c_[3])
                        tt.__dict__.update({k_: v_ for k_, v_ in
                                            tr.__dict__.items()
                                            if k_ != 'env'})
                        tt.env = c_[3]
                        g = tt.truth(c_[1])
                        conj.append(g if c_[2] else z3.Not(g))
                    else:
                        tt = Tr(c_[3])
                        tt.__dict__.update({k_: v_ for k_, v_ in
                                            tr.__dict__.items()
                                            if k_ != 'env'})
                        tt.env = c_[3]
                        conj.append(tt.domain(c_[1], c_[2], c_[3]))
                        qv.append(tt.var(c_[1].id))
                if idx.op != 'var':
                    raise mpsvc.Unsupported('row index of a label')
                rv = tr.var(idx.a[0].split('@')[0])
                val = tr.t(num.node)
                f = z3.And(conj + [R == rv, V == val])
                for x in qv:
                    # the row index is the loop variable: eliminate it
                    f = z3.substitute(f, (x, R)) if z3.eq(x, rv) else \
                        z3.Exists([x], f)
                written.append((ln.lineno, f))
        except mpsvc.Unsupported as e:
            add('op.tofile:entries:%s:supported' % sec, 'entries',
                'undecided', 'the guards and indices of the %s lines are '
                'inside the translated subset' % sec, detail=str(e))
            continue
        tr = tr0
        i = tr.var('i')
        m, n, r, cd, cs = tr.m, tr.n, tr.r, tr.cd, tr.cs
        if sec == 'COLUMNS':
            inv = [m >= 1, n >= 1, i >= 0, i < n, R >= 0, R < m, tr.inC,
                   z3.Or(z3.And(r == m, cd == n), z3.And(r == 1, cd == n),
                         z3.And(r == 1, cd == 1)),
                   z3.Implies(z3.And(r == 1, cd == 1, n > 1), m == n)]
            coef = z3.If(z3.And(r == m, cd == n), tr.cfv(R, i),
                         z3.If(z3.And(r == 1, cd == n), tr.cfv(0, i),
                               z3.If(R == i, tr.cfv(0, 0), z3.RealVal(0))))
            need = coef != 0
            what = 'the coefficient of component i of v in row R of c'
        else:
            inv = [m >= 1, R >= 0, R < m, z3.Or(cs == m, cs == 1)]
            coef = z3.If(cs == m, tr.constv(R), tr.constv(0))
            need = z3.BoolVal(True)
            what = 'minus the constant of row R of c'
        L2 = mpsvc.Lengths()
        L2.facts = list(inv)
        for lineno, f in written:
            st, model = prove(L2, z3.Implies(f, z3.And(V == coef, need)))
            add('op.tofile:entries:%s:sound@%d' % (sec, len([
                1 for x in written if x[0] < lineno])), 'entries', st,
                'a %s line written for (v,i) and row R of c carries %s, and '
                'only when it is needed' % (sec, what), lineno, model)
        anyw = z3.Or([z3.substitute(f, (V, coef)) for _, f in written])
        st, model = prove(L2, z3.Implies(need, anyw))
        add('op.tofile:entries:%s:complete' % sec, 'entries', st,
            'for every shape of the coefficient ((m,n), (1,n) or scalar) '
            'every row R of c in which (v,i) has a nonzero coefficient gets '
            'a %s line with that value' % sec if sec == 'COLUMNS' else
            'every row R of every constraint gets an RHS line with minus '
            'its constant (a constant of length 1 is repeated)', 0, model)
