"""Contracts of everything the solver code calls that is outside the function
under verification: Python builtins, math, the cvxopt matrix type, cvxopt.blas
/ base / lapack wrappers (as seen from Python: which arguments they modify,
what they return), the cone kernels of cvxopt.misc, and the *roles* of user
callbacks (kktsolver, F, operator-form G/A/P, xdot ...).

TRUSTED BASE of the Python-side proofs unless a contract is itself verified
elsewhere (the misc.* footprints under C08, the blas wrappers under C17/C19).

Ghost state on matrices: f['sym'] = number of leading 's' blocks known to be
symmetric (G2 typestate, DESIGN 2.3).
"""
import z3, ast
from engine.pyvc.core import (I, R, B, Dyn, Ref, Ext, BoundMethod, Unknown,
                              PyRaise, NeedFork, Unsupported, const_of,
                              TAG_NONE, TAG_BOOL, TAG_INT, TAG_FLOAT, TAG_STR,
                              TAG_OBJ, strid, NOTFOUND)
from engine.pyvc.extlib import Lib
from contracts.py import algebra as alg

LIB = Lib()
L = LIB

for a, b in [('cvxopt.base.matrix', 'cvxopt.matrix'),
             ('cvxopt.base.spmatrix', 'cvxopt.spmatrix'),
             ('cvxopt.base.sparse', 'cvxopt.sparse'),
             ('cvxopt.base.spdiag', 'cvxopt.spdiag'),
             ('cvxopt.base.gemv', 'cvxopt.base.gemv')]:
    L.aliases[a] = b
for m in ('blas', 'lapack', 'base', 'misc', 'solvers', 'cholmod', 'umfpack',
          'misc_solvers', 'amd', 'glpk', 'dsdp', 'msk', 'coneprog', 'cvxprog',
          'modeling'):
    for pre in ('', ):
        pass


def arg(args, kwargs, i, name, default=None):
    if i is not None and i < len(args):
        return args[i]
    return kwargs.get(name, default)


def is_matrix(st, v):
    return isinstance(v, Ref) and st.heap[v.oid].kind == 'matrix'


def mat(st, v):
    return st.heap[v.oid]


# ------------------------------------------------------------------ builtins
@L.register('builtins.isinstance', pure=True)
def b_isinstance(ex, st, args, kwargs, n):
    v, t = args
    ts = t if isinstance(t, tuple) else (t,)
    names = []
    for x in ts:
        if isinstance(x, Ext):
            names.append(L.canon(x.name))
        else:
            return B(z3.Bool(ex.fresh('isinstance_unknown_type')))
    res = []
    for nm in names:
        res.append(type_test(ex, st, v, nm))
    if any(r is True for r in res):
        return True
    res = [r for r in res if r is not False]
    if not res:
        return False
    return B(z3.Or(res))


def type_test(ex, st, v, tname):
    short = tname.split('.')[-1]
    if short in ('int', 'long'):
        if isinstance(v, bool) or isinstance(v, int) or isinstance(v, (I, B)):
            return True
        if isinstance(v, Dyn):
            return z3.Or(v.tag == TAG_INT, v.tag == TAG_BOOL)
        if isinstance(v, Unknown):
            return unknown_pred(ex, v, 'isint')
        return False
    if short == 'float':
        if isinstance(v, float) or isinstance(v, R):
            return True
        if isinstance(v, Dyn):
            return v.tag == TAG_FLOAT
        if isinstance(v, Unknown):
            return unknown_pred(ex, v, 'isfloat')
        return False
    if short == 'complex':
        if isinstance(v, Unknown):
            return unknown_pred(ex, v, 'iscomplex')
        return False
    if short == 'str':
        if isinstance(v, str):
            return True
        if isinstance(v, Dyn):
            return v.tag == TAG_STR
        if isinstance(v, Unknown):
            return unknown_pred(ex, v, 'isstr')
        return False
    if short == 'bool':
        if isinstance(v, (bool, B)):
            return True
        if isinstance(v, Dyn):
            return v.tag == TAG_BOOL
        return False
    if short in ('matrix', 'spmatrix'):
        if isinstance(v, Ref):
            o = st.heap[v.oid]
            if o.kind == 'matrix':
                sp = o.f.get('sparse')
                if sp is None:
                    b = o.meta.setdefault('issp', z3.Bool(ex.fresh(
                        'issparse_obj%d' % v.oid)))
                    return b if short == 'spmatrix' else z3.Not(b)
                return bool(sp) == (short == 'spmatrix')
            return False
        if isinstance(v, Unknown):
            return unknown_pred(ex, v, 'is' + short)
        if isinstance(v, Dyn):
            return z3.And(v.tag == TAG_OBJ, z3.Bool('is%s(%s)' % (short,
                                                                 v.name)))
        return False
    if short in ('list', 'dict', 'tuple'):
        if isinstance(v, tuple):
            return short == 'tuple'
        if isinstance(v, Ref):
            return st.heap[v.oid].kind == short
        if isinstance(v, Unknown):
            return unknown_pred(ex, v, 'is' + short)
        if isinstance(v, Dyn):
            return z3.And(v.tag == TAG_OBJ, z3.Bool('is%s(%s)' % (short,
                                                                 v.name)))
        return False
    # classes of the module under analysis
    if isinstance(v, Ref):
        o = st.heap[v.oid]
        if o.kind == 'instance':
            cls = o.f.get('cls')
            h = L.hooks.get('isinstance_class')
            if h:
                return h(ex, st, v, short)
            return cls == short
        return False
    if isinstance(v, Unknown):
        return unknown_pred(ex, v, 'is_' + short)
    if isinstance(v, Dyn):
        return z3.And(v.tag == TAG_OBJ, z3.Bool('is_%s(%s)' % (short,
                                                              v.name)))
    return False


def unknown_pred(ex, v, pred):
    k = (pred, v.uid)
    if k not in ex.names:
        ex.names[k] = z3.Bool(ex.fresh('%s_%s' % (pred, (v.why or 'u')[:20]
                                                  .replace(' ', '_'))))
    return ex.names[k]


@L.register('builtins.type', pure=True)
def b_type(ex, st, args, kwargs, n):
    v = args[0]
    if is_matrix(st, v):
        o = mat(st, v)
        sp = o.f.get('sparse')
        if sp is None:
            b = o.meta.setdefault('issp', z3.Bool(ex.fresh(
                'issparse_obj%d' % v.oid)))
            d = ex.decide(st, b)
            if d is None:
                raise NeedFork(b)
            sp = d
        if sp is False:
            return Ext('cvxopt.matrix')
        if sp is True:
            return Ext('cvxopt.spmatrix')
    if isinstance(v, Ref):
        o = st.heap[v.oid]
        if o.kind in ('list', 'dict'):
            return Ext('builtins.' + o.kind)
        if o.kind == 'instance':
            return Ext('%s.%s' % (ex.modname, o.f['cls']))
    if isinstance(v, bool):
        return Ext('builtins.bool')
    if isinstance(v, (int, I)):
        return Ext('builtins.int')
    if isinstance(v, (float, R)):
        return Ext('builtins.float')
    if isinstance(v, str):
        return Ext('builtins.str')
    return Unknown('type')


@L.register('builtins.len', pure=True)
def b_len(ex, st, args, kwargs, n):
    v = args[0]
    if isinstance(v, (tuple, str)):
        return len(v)
    if isinstance(v, Ref):
        o = st.heap[v.oid]
        if o.kind == 'list':
            return L.sym_len(ex, st, v)
        if o.kind == 'dict':
            if not o.f.get('open') and not o.f.get('present'):
                return len(o.f['items'])
            r = ex.fresh_int('len_dict')
            ex.axioms.append(r.t >= 0)
            return r
        if o.kind == 'matrix':
            return L.mul(ex, st, o.f['nrows'], o.f['ncols'])
        if o.kind == 'range':
            return L.iter_len(ex, st, v)
        h = L.hooks.get('instance_len')
        if h and o.kind == 'instance':
            return h(ex, st, v, n)
    if v is None:
        raise PyRaise('TypeError', "object of type 'NoneType' has no len()")
    r = ex.fresh_int('len')
    ex.axioms.append(r.t >= 0)
    return r


@L.register('builtins.range', pure=True)
def b_range(ex, st, args, kwargs, n):
    if len(args) == 1:
        lo, hi, step = 0, args[0], 1
    elif len(args) == 2:
        lo, hi, step = args[0], args[1], 1
    else:
        lo, hi, step = args
    return ex.alloc(st, 'range', {'lo': lo, 'hi': hi, 'step': step},
                    {'owner': 'FRESH'})


def numeric_list(ex, st, v):
    if isinstance(v, (tuple, list)):
        return list(v)
    if isinstance(v, Ref):
        o = st.heap[v.oid]
        if o.kind == 'list' and 'items' in o.f:
            return list(o.f['items'])
    return None


def zmax(ex, st, vals, n, is_max=True):
    cs = [const_of(v) for v in vals]
    if all(c for c, _ in cs):
        ks = [k for _, k in cs]
        try:
            return max(ks) if is_max else min(ks)
        except TypeError:
            raise PyRaise('TypeError', 'unorderable')
    nums = [ex.num(st, v, n, 'argument of max/min') for v in vals]
    real = any(k == 'real' for k, _ in nums)
    ts = [z3.ToReal(t) if (real and k == 'int') else t for k, t in nums]
    acc = ts[0]
    for t in ts[1:]:
        acc = z3.If(t > acc, t, acc) if is_max else z3.If(t < acc, t, acc)
    return R(acc) if real else I(acc)


@L.register('builtins.max', pure=True)
def b_max(ex, st, args, kwargs, n):
    return minmax(ex, st, args, kwargs, n, True)


@L.register('builtins.min', pure=True)
def b_min(ex, st, args, kwargs, n):
    return minmax(ex, st, args, kwargs, n, False)


def minmax(ex, st, args, kwargs, n, is_max):
    if len(args) == 1:
        vals = numeric_list(ex, st, args[0])
        if vals is None:
            v = args[0]
            if isinstance(v, Ref) and st.heap[v.oid].kind == 'list':
                ln = L.sym_len(ex, st, v)
                if isinstance(ln, I):
                    d = ex.decide(st, ln.t > 0)
                    if d is False:
                        raise PyRaise('ValueError', 'max() arg is an empty '
                                      'sequence')
                r = ex.fresh_int('max_of_list' if is_max else 'min_of_list')
                st.ghost[('extremum', r.t.get_id())] = (v, is_max)
                h = L.hooks.get('list_extremum')
                if h:
                    h(ex, st, v, r, is_max)
                return r
            if is_matrix(st, v):
                return L.elem_value(ex, st, mat(st, v))
            hk = L.hooks.get('minmax_object')
            if hk:
                return hk(ex, st, args, kwargs, n, is_max)
            return Unknown('max of object')
        if not vals:
            raise PyRaise('ValueError', 'max() arg is an empty sequence')
    else:
        vals = list(args)
    if any(isinstance(v, (Ref, Unknown)) for v in vals):
        hk = L.hooks.get('minmax_object')
        if hk:
            return hk(ex, st, args, kwargs, n, is_max)
        return Unknown('max of objects')
    return zmax(ex, st, vals, n, is_max)


@L.register('builtins.abs', pure=True)
def b_abs(ex, st, args, kwargs, n):
    v = args[0]
    c, k = const_of(v)
    if c and isinstance(k, (int, float)):
        return abs(k)
    if isinstance(v, Ref):
        hk = L.hooks.get('abs_object')
        if hk:
            return hk(ex, st, v, n)
        return Unknown('abs of object')
    kk, t = ex.num(st, v, n)
    return ex.wrap_num(kk, z3.If(t >= 0, t, -t))


@L.register('builtins.sum', pure=True)
def b_sum(ex, st, args, kwargs, n):
    v = args[0]
    vals = numeric_list(ex, st, v)
    if vals is not None:
        if any(isinstance(x, (Ref, Unknown)) for x in vals) or (
                len(args) > 1 and isinstance(args[1], (Ref, Unknown))):
            hk = L.hooks.get('sum_objects')
            if hk:
                return hk(ex, st, vals, args, n)
            return Unknown('sum of objects')
        acc = args[1] if len(args) > 1 else 0
        for x in vals:
            acc = ex.arith(st, ast.Add(), acc, x, n)
        return acc
    if isinstance(v, Ref) and st.heap[v.oid].kind == 'list':
        return psum_total(ex, st, v)
    hk = L.hooks.get('sum_objects')
    if hk:
        return hk(ex, st, None, args, n)
    return Unknown('sum')


# -------- prefix sums over symbolic integer lists (ghost functions)
def psum_fn(ex, st, ref):
    """uninterpreted prefix-sum function S: Int -> Int of a symbolic list,
    S(0) = 0 and S(k+1) = S(k) + elem(k) (instantiated on demand)"""
    o = st.heap[ref.oid]
    key = o.meta.get('psum')
    if key is None:
        nm = o.meta.get('name') or ex.fresh('list%d' % ref.oid)
        o.meta['name'] = nm
        key = z3.Function('psum[%s]' % nm, z3.IntSort(), z3.IntSort())
        o.meta['psum'] = key
        ex.axioms.append(key(0) == 0)
        ln = o.f['len'].t
        ex.axioms.append(ln >= 0)
        # monotonicity facts for lists known to be nonnegative
        if o.meta.get('nonneg'):
            ex.axioms.append(key(ln) >= 0)
    return key


def psum_total(ex, st, ref):
    o = st.heap[ref.oid]
    S = psum_fn(ex, st, ref)
    return I(S(o.f['len'].t))


def psum_step(ex, st, ref, k):
    """adds S(k+1) = S(k) + elem(k) for index term k (0 <= k < len)"""
    o = st.heap[ref.oid]
    if o.kind != 'list' or 'len' not in o.f:
        return
    e = o.f.get('elem', ('unknown',))
    if e[0] != 'fn':
        return
    S = psum_fn(ex, st, ref)
    st.pc.append(S(k + 1) == S(k) + e[1](k))
    if o.meta.get('nonneg'):
        st.pc.append(e[1](k) >= 0)
        st.pc.append(S(k) >= 0)
        st.pc.append(S(k + 1) <= S(o.f['len'].t))


def loop_index_hook(ex, st, it, k):
    """on entering the body of `for m in L` with ghost index k: instantiate
    the prefix-sum steps of L and of every comprehension derived from L"""
    psum_step(ex, st, it, k)
    for oid, o in list(st.heap.items()):
        if o.kind == 'list' and o.meta.get('src') is not None and \
                o.meta['src'].oid == it.oid:
            psum_step(ex, st, Ref(oid), k)


L.hooks['loop_index'] = loop_index_hook


@L.register('builtins.int', pure=True)
def b_int(ex, st, args, kwargs, n):
    if not args:
        return 0
    v = args[0]
    c, k = const_of(v)
    if c and isinstance(k, (int, float)):
        return int(k)
    if isinstance(v, I):
        return v
    if isinstance(v, R):
        # int() of a real that is an integer-valued expression (e.g.
        # n*(n+1)/2): truncation
        return I(z3.ToInt(v.t))
    return ex.fresh_int('int')


@L.register('builtins.float', pure=True)
def b_float(ex, st, args, kwargs, n):
    if not args:
        return 0.0
    v = args[0]
    c, k = const_of(v)
    if c and isinstance(k, (int, float)):
        return float(k)
    if isinstance(v, (I, R, B, Dyn)):
        kk, t = ex.num(st, v, n)
        return R(z3.ToReal(t) if kk == 'int' else t)
    return ex.fresh_real('float')


@L.register('builtins.print', pure=True)
def b_print(ex, st, args, kwargs, n):
    return None


@L.register('builtins.str', pure=True)
def b_str(ex, st, args, kwargs, n):
    if args and isinstance(args[0], str):
        return args[0]
    c, k = const_of(args[0]) if args else (True, '')
    if c and isinstance(k, int):
        return str(k)
    return Unknown('str')


@L.register('builtins.list', pure=True)
def b_list(ex, st, args, kwargs, n):
    if not args:
        return ex.alloc(st, 'list', {'items': []}, {'owner': 'FRESH',
                                                    'site': n.lineno})
    v = args[0]
    vals = L.iter_values(ex, st, v, n)
    if vals is not None:
        return ex.alloc(st, 'list', {'items': list(vals)},
                        {'owner': 'FRESH', 'site': n.lineno})
    if isinstance(v, Ref) and st.heap[v.oid].kind in ('list', 'range'):
        o = st.heap[v.oid]
        if o.kind == 'range':
            kl, tl = ex.num(st, o.f['lo'])
            return ex.alloc(st, 'list', {'len': L.iter_len(ex, st, v),
                                         'elem': ('fn', lambda k, tl=tl:
                                                  tl + k)},
                            {'owner': 'FRESH', 'site': n.lineno})
        f = dict(o.f)
        return ex.alloc(st, 'list', f, dict(o.meta, owner='FRESH',
                                            site=n.lineno))
    return ex.alloc(st, 'list', {'len': ex.fresh_int('len'),
                                 'elem': ('unknown',)},
                    {'owner': 'FRESH', 'site': n.lineno})


@L.register('builtins.tuple', pure=True)
def b_tuple(ex, st, args, kwargs, n):
    if not args:
        return ()
    vals = L.iter_values(ex, st, args[0], n)
    if vals is not None:
        return tuple(vals)
    return Unknown('tuple')


@L.register('builtins.dict', pure=True)
def b_dict(ex, st, args, kwargs, n):
    items = dict(kwargs)
    if args:
        v = args[0]
        if isinstance(v, Ref) and st.heap[v.oid].kind == 'dict':
            o = st.heap[v.oid]
            f = {'items': dict(o.f['items']), 'open': o.f.get('open', False)}
            if o.f.get('present'):
                f['present'] = dict(o.f['present'])
            f['items'].update(items)
            return ex.alloc(st, 'dict', f, dict(o.meta, owner='FRESH',
                                                site=n.lineno))
        return ex.alloc(st, 'dict', {'items': items, 'open': True},
                        {'owner': 'FRESH', 'site': n.lineno})
    return ex.alloc(st, 'dict', {'items': items, 'open': False},
                    {'owner': 'FRESH', 'site': n.lineno})


@L.register('builtins.globals', pure=True)
def b_globals(ex, st, args, kwargs, n):
    g = st.ghost.get('globals_dict')
    if g is None:
        opts = L.module_global(ex, st, ex.modname, 'options')
        g = ex.alloc(st, 'dict', {'items': {'options': opts}, 'open': True},
                     {'owner': 'GLOBAL:module dict', 'name': 'globals()'})
        st.ghost['globals_dict'] = g
    return g


@L.register('builtins.callable', pure=True)
def b_callable(ex, st, args, kwargs, n):
    v = args[0]
    if isinstance(v, (Ext, BoundMethod)):
        return True
    if isinstance(v, Ref):
        return st.heap[v.oid].kind == 'closure'
    if isinstance(v, Unknown):
        return B(unknown_pred(ex, v, 'callable'))
    return False


@L.register('builtins.hasattr', pure=True)
def b_hasattr(ex, st, args, kwargs, n):
    return B(z3.Bool(ex.fresh('hasattr')))


@L.register('builtins.zip', pure=True)
def b_zip(ex, st, args, kwargs, n):
    seqs = [L.iter_values(ex, st, a, n) for a in args]
    if all(s is not None for s in seqs):
        return ex.alloc(st, 'list', {'items': [tuple(t) for t in zip(*seqs)]},
                        {'owner': 'FRESH', 'site': n.lineno})
    return ex.alloc(st, 'list', {'len': ex.fresh_int('len'),
                                 'elem': ('unknown',)},
                    {'owner': 'FRESH', 'site': n.lineno})


@L.register('builtins.enumerate', pure=True)
def b_enumerate(ex, st, args, kwargs, n):
    vals = L.iter_values(ex, st, args[0], n)
    if vals is not None:
        return ex.alloc(st, 'list', {'items': [(i, v) for i, v in
                                               enumerate(vals)]},
                        {'owner': 'FRESH', 'site': n.lineno})
    return ex.alloc(st, 'list', {'len': ex.fresh_int('len'),
                                 'elem': ('unknown',)},
                    {'owner': 'FRESH', 'site': n.lineno})


# ---------------------------------------------------------------------- math
@L.register('math.sqrt', pure=True)
def m_sqrt(ex, st, args, kwargs, n):
    v = args[0]
    c, k = const_of(v)
    if c and isinstance(k, (int, float)) and k >= 0:
        import math
        r = math.sqrt(k)
        if r == int(r):
            return float(r)
    kk, t = ex.num(st, v, n)
    if kk == 'int':
        t = z3.ToReal(t)
    d = ex.decide(st, t >= 0)
    if d is False:
        raise PyRaise('ValueError', 'math domain error')
    if d is None:
        # argument of sqrt negative: ValueError('math domain error').  All
        # uses in the solvers are on inner products <v,v>, squared norms or
        # quantities whose sign is a numerical invariant; recorded as an
        # assumption, not forked (the property texts exclude it)
        ex.trusted.add('assumption: arguments of math.sqrt are nonnegative '
                       '(sums of squares / numerical invariants)')
        st.pc.append(t >= 0)
    key = ('sqrt', t.get_id())
    r = st.ghost.get(key)
    if r is None:
        r = z3.Real(ex.fresh('sqrt'))
        st.ghost[key] = r
        st.ghost[('keep', t.get_id())] = t
        if ex.cfg.get('algebra'):
            alg.facts(ex).append(z3.Implies(t >= 0, z3.And(r >= 0,
                                                          r * r == t)))
        if ex.cfg.get('exact_sqrt'):
            st.pc.append(z3.And(r >= 0, r * r == t))
        else:
            # linear abstraction of the square root (the exact definition
            # r*r == t is only needed by the G4 algebra obligations)
            st.pc.append(z3.And(r >= 0, (r == 0) == (t == 0),
                                (r >= 1) == (t >= 1)))
    return R(r)


for _f in ('log', 'exp', 'cos', 'sin', 'pow', 'floor', 'ceil', 'fabs'):
    def _mk(f):
        @L.register('math.' + f, pure=True)
        def h(ex, st, args, kwargs, n):
            return ex.fresh_real(f)
        return h
    _mk(_f)


# ------------------------------------------------------------------- matrix
def size_of(ex, st, v):
    if isinstance(v, tuple) and len(v) == 2:
        return v
    return None


@L.register('cvxopt.matrix', pure=True)
def c_matrix(ex, st, args, kwargs, n):
    """matrix(x[, size[, tc]]): always a NEW dense matrix"""
    x = arg(args, kwargs, 0, 'x')
    size = arg(args, kwargs, 1, 'size')
    tc = arg(args, kwargs, 2, 'tc')
    if x is None and not args:
        return L.new_matrix(ex, st, 0, 0, 'i' if tc is None else tc,
                            site=n.lineno)
    sz = size_of(ex, st, size) if size is not None else None
    if is_matrix(st, x):
        o = mat(st, x)
        nr, nc = sz if sz else (o.f['nrows'], o.f['ncols'])
        r_ = L.new_matrix(ex, st, nr, nc, tc if isinstance(tc, str) else
                           o.f['tc'], site=n.lineno, symval=o.f['sym']
                           if not sz else None)
        if alg.enabled(ex) and not sz:
            alg.setval(st, r_, o.f.get('val'))
        return r_
    c, k = const_of(x)
    if c and isinstance(k, (int, float)) or isinstance(x, (I, R, Dyn)):
        t = tc if isinstance(tc, str) else ('i' if (c and isinstance(
            k, int) and not isinstance(k, bool)) or isinstance(x, I) else 'd')
        if sz is None:
            sz = (1, 1)
        # a constant matrix is symmetric in every 's' block
        r_ = L.new_matrix(ex, st, sz[0], sz[1], t, site=n.lineno,
                          symval=z3.Int('SYM_ALL'))
        if alg.enabled(ex) and c and k == 0:
            alg.setval(st, r_, {})
        return r_
    if isinstance(x, Ref) and st.heap[x.oid].kind in ('list', 'range'):
        ln = L.iter_len(ex, st, x) if st.heap[x.oid].kind == 'range' else \
            L.sym_len(ex, st, x)
        nr, nc = sz if sz else (ln, 1)
        return L.new_matrix(ex, st, nr, nc, tc if isinstance(tc, str) else
                            None, site=n.lineno)
    if sz is None:
        sz = (ex.fresh_int('nrows'), ex.fresh_int('ncols'))
        ex.axioms.append(z3.And(sz[0].t >= 0, sz[1].t >= 0))
    return L.new_matrix(ex, st, sz[0], sz[1], tc if isinstance(tc, str)
                        else None, site=n.lineno)


@L.register('cvxopt.spmatrix', pure=True)
def c_spmatrix(ex, st, args, kwargs, n):
    size = arg(args, kwargs, 3, 'size')
    tc = arg(args, kwargs, 4, 'tc')
    sz = size_of(ex, st, size)
    if sz is None:
        sz = (ex.fresh_int('nrows'), ex.fresh_int('ncols'))
        ex.axioms.append(z3.And(sz[0].t >= 0, sz[1].t >= 0))
    return L.new_matrix(ex, st, sz[0], sz[1], tc if isinstance(tc, str)
                        else 'd', site=n.lineno, sparse=True)


@L.register('cvxopt.sparse', pure=True)
def c_sparse(ex, st, args, kwargs, n):
    r = L.new_matrix(ex, st, ex.fresh_int('nrows'), ex.fresh_int('ncols'),
                     'd', site=n.lineno, sparse=True)
    return r


@L.register('cvxopt.spdiag', pure=True)
def c_spdiag(ex, st, args, kwargs, n):
    r = L.new_matrix(ex, st, ex.fresh_int('nrows'), ex.fresh_int('ncols'),
                     'd', site=n.lineno, sparse=True)
    return r


@L.method('matrix', 'trans')
def mt_trans(ex, st, self, args, kwargs, n):
    o = mat(st, self)
    return L.new_matrix(ex, st, o.f['ncols'], o.f['nrows'], o.f['tc'],
                        site=n.lineno, sparse=o.f.get('sparse'))


@L.method('matrix', 'ctrans')
def mt_ctrans(ex, st, self, args, kwargs, n):
    return mt_trans(ex, st, self, args, kwargs, n)


@L.method('dict', 'get')
def d_get(ex, st, self, args, kwargs, n):
    key = args[0]
    default = args[1] if len(args) > 1 else None
    c, k = const_of(key)
    if c and isinstance(k, (str, int)):
        return ex.dict_get(st, self, k, n, default)
    return Unknown('dict.get with symbolic key')


@L.method('dict', 'setdefault')
def d_setdefault(ex, st, self, args, kwargs, n):
    key = args[0]
    default = args[1] if len(args) > 1 else None
    c, k = const_of(key)
    o = st.heap[self.oid]
    if not (c and isinstance(k, (str, int))):
        L.on_mutate(ex, st, self, 'dict.setdefault', n)
        o.f['open'] = True
        return Unknown('setdefault')
    has = ex.dict_has(st, self, k)
    d = has if isinstance(has, bool) else ex.decide(st, has)
    if d is None:
        raise NeedFork(has)
    if d:
        return o.f['items'][k]
    L.on_mutate(ex, st, self, "dict.setdefault('%s', ...) on a dictionary "
                "without that key" % k, n)
    o.f['items'] = dict(o.f['items'])
    o.f['items'][k] = default
    if k in o.f.get('present', {}):
        o.f['present'] = dict(o.f['present'])
        del o.f['present'][k]
    return default


@L.method('dict', 'keys')
def d_keys(ex, st, self, args, kwargs, n):
    o = st.heap[self.oid]
    if not o.f.get('open') and not o.f.get('present'):
        return ex.alloc(st, 'list', {'items': list(o.f['items'].keys())},
                        {'owner': 'FRESH', 'site': n.lineno})
    return ex.alloc(st, 'list', {'len': ex.fresh_int('nkeys'),
                                 'elem': ('unknown',)},
                    {'owner': 'FRESH', 'site': n.lineno,
                     'keys_of': self})


@L.method('dict', 'values')
def d_values(ex, st, self, args, kwargs, n):
    o = st.heap[self.oid]
    if not o.f.get('open') and not o.f.get('present'):
        return ex.alloc(st, 'list', {'items': list(o.f['items'].values())},
                        {'owner': 'FRESH', 'site': n.lineno})
    return ex.alloc(st, 'list', {'len': ex.fresh_int('nvals'),
                                 'elem': ('unknown',)},
                    {'owner': 'FRESH', 'site': n.lineno})


@L.method('dict', 'items')
def d_items(ex, st, self, args, kwargs, n):
    o = st.heap[self.oid]
    if not o.f.get('open') and not o.f.get('present'):
        return ex.alloc(st, 'list', {'items': list(o.f['items'].items())},
                        {'owner': 'FRESH', 'site': n.lineno})
    return ex.alloc(st, 'list', {'len': ex.fresh_int('nitems'),
                                 'elem': ('unknown',)},
                    {'owner': 'FRESH', 'site': n.lineno})


@L.method('dict', 'copy')
def d_copy(ex, st, self, args, kwargs, n):
    return b_dict(ex, st, [self], {}, n)


@L.method('dict', 'update')
def d_update(ex, st, self, args, kwargs, n):
    L.on_mutate(ex, st, self, 'dict.update', n)
    o = st.heap[self.oid]
    o.f['open'] = True
    return None


@L.method('dict', 'pop')
def d_pop(ex, st, self, args, kwargs, n):
    L.on_mutate(ex, st, self, 'dict.pop', n)
    c, k = const_of(args[0])
    o = st.heap[self.oid]
    if c and k in o.f['items'] and not o.f.get('present', {}).get(k):
        return o.f['items'].pop(k)
    o.f['open'] = True
    return Unknown('popped')


@L.method('list', 'append')
def l_append(ex, st, self, args, kwargs, n):
    L.on_mutate(ex, st, self, 'list.append', n)
    o = st.heap[self.oid]
    if 'items' in o.f:
        o.f['items'] = o.f['items'] + [args[0]]
    else:
        o.f['len'] = I(o.f['len'].t + 1)
        o.f['elem'] = ('unknown',)
    return None


@L.method('list', 'remove')
def l_remove(ex, st, self, args, kwargs, n):
    L.on_mutate(ex, st, self, 'list.remove', n)
    h = L.hooks.get('list_remove')
    if h:
        return h(ex, st, self, args[0], n)
    o = st.heap[self.oid]
    o.f.pop('items', None)
    o.f['len'] = ex.fresh_int('len')
    o.f['elem'] = ('unknown',)
    return None


@L.method('list', 'index')
def l_index(ex, st, self, args, kwargs, n):
    return ex.fresh_int('index')


@L.method('list', 'count')
def l_count(ex, st, self, args, kwargs, n):
    h = L.hooks.get('list_count')
    if h:
        return h(ex, st, self, args[0], n)
    r = ex.fresh_int('count')
    ex.axioms.append(r.t >= 0)
    return r


# --------------------------------------------------------------------- blas
def mutate(ex, st, v, how, n, sym=None):
    """records the frame obligation for a mutated matrix argument and updates
    its symmetry typestate"""
    if is_matrix(st, v):
        src = mat(st, v).f.get('unvalidated')
        if src:
            # a caller-supplied start point for a cone variable was copied
            # in and is now being updated although misc.max_step was never
            # applied to it (its cone membership was not tested)
            mat(st, v).f['unvalidated'] = None
            ex.oblige(st, 'start-point-validated', False, n,
                      'the start point copied from %s is tested with '
                      'misc.max_step before it is used (%s at line %s)' % (
                          src, how, getattr(n, 'lineno', 0)),
                      extra={'prop': {'conelp': 'C01', 'coneqp': 'C03'}.get(
                          ex.fname, 'C01')})
        L.on_mutate(ex, st, v, how, n)
        mat(st, v).f['sym'] = sym if sym is not None else z3.IntVal(0)
        if 'val' in mat(st, v).f and how not in (
                'misc.symm', "misc.sgemv(trans='T') [trisc/triusc on x]"):
            mat(st, v).f['val'] = None
    elif isinstance(v, Ref):
        L.on_mutate(ex, st, v, how, n)
    elif isinstance(v, Unknown):
        pass
    elif v is None:
        raise PyRaise('TypeError', '%s: argument must be a matrix, got None'
                      % how)


def partial(kwargs, *names):
    return any(k in kwargs for k in names)


def zmin2(a, b):
    return z3.If(a <= b, a, b)


@L.register('cvxopt.blas.scal', mutates=['x'])
def blas_scal(ex, st, args, kwargs, n):
    x = arg(args, kwargs, 1, 'x')
    keep = is_matrix(st, x) and not partial(kwargs, 'n', 'offset', 'inc')
    old = alg.valof(st, x)
    mutate(ex, st, x, 'blas.scal', n, mat(st, x).f['sym'] if keep else None)
    if alg.enabled(ex) and keep:
        a0 = arg(args, kwargs, 0, 'alpha')
        c0, k0 = const_of(a0)
        if c0 and k0 == 0:
            alg.setval(st, x, {})
    if alg.enabled(ex) and keep and old is not None:
        a = arg(args, kwargs, 0, 'alpha')
        try:
            ka, ta = ex.num(st, a, n)
            alg.setval(st, x, alg.scale(old, z3.ToReal(ta) if ka == 'int'
                                        else ta))
        except Exception:
            pass
    return None


@L.register('cvxopt.blas.copy', mutates=['y'])
def blas_copy(ex, st, args, kwargs, n):
    x = arg(args, kwargs, 0, 'x')
    y = arg(args, kwargs, 1, 'y')
    full = not partial(kwargs, 'n', 'offsetx', 'offsety', 'incx', 'incy') \
        and len(args) <= 2
    s = mat(st, x).f['sym'] if (full and is_matrix(st, x)) else None
    mutate(ex, st, y, 'blas.copy', n, s)
    if alg.enabled(ex) and full:
        alg.setval(st, y, alg.valof(st, x))
    if is_matrix(st, x) and is_matrix(st, y):
        own = str(st.heap[x.oid].meta.get('owner', ''))
        if own.startswith('INPUT:') and ("start['s']" in own or
                                         "start['z']" in own or
                                         "initvals['s']" in own or
                                         "initvals['z']" in own):
            mat(st, y).f['unvalidated'] = own[6:]
    return None


@L.register('cvxopt.blas.axpy', mutates=['y'])
def blas_axpy(ex, st, args, kwargs, n):
    x = arg(args, kwargs, 0, 'x')
    y = arg(args, kwargs, 1, 'y')
    full = not partial(kwargs, 'n', 'offsetx', 'offsety', 'incx', 'incy') \
        and len(args) <= 3
    s = None
    if full and is_matrix(st, x) and is_matrix(st, y):
        s = zmin2(mat(st, x).f['sym'], mat(st, y).f['sym'])
    oldy = alg.valof(st, y)
    mutate(ex, st, y, 'blas.axpy', n, s)
    if alg.enabled(ex) and full:
        al = arg(args, kwargs, 2, 'alpha', 1.0)
        try:
            ka, ta = ex.num(st, al, n)
            ta = z3.ToReal(ta) if ka == 'int' else ta
            alg.setval(st, y, alg.add(oldy, alg.scale(alg.valof(st, x), ta)))
        except Exception:
            pass
    return None


@L.register('cvxopt.blas.swap', mutates=['x', 'y'])
def blas_swap(ex, st, args, kwargs, n):
    mutate(ex, st, arg(args, kwargs, 0, 'x'), 'blas.swap', n)
    mutate(ex, st, arg(args, kwargs, 1, 'y'), 'blas.swap', n)
    return None


def inner_product(ex, st, x, y, what, kind='ip'):
    """<x,y>: a real; nonnegative when x and y are the same object"""
    if alg.enabled(ex):
        t = alg.inner(kind, alg.valof(st, x), alg.valof(st, y), ex)
        if t is not None:
            if isinstance(x, Ref) and isinstance(y, Ref) and x.oid == y.oid:
                st.pc.append(t >= 0)
            return R(t)
    r = ex.fresh_real(what)
    if isinstance(x, Ref) and isinstance(y, Ref) and x.oid == y.oid:
        st.pc.append(r.t >= 0)
    return r


@L.register('cvxopt.blas.dot', pure=True)
def blas_dot(ex, st, args, kwargs, n):
    return inner_product(ex, st, arg(args, kwargs, 0, 'x'),
                         arg(args, kwargs, 1, 'y'), 'dot')


L.ext['cvxopt.blas.dotu'] = blas_dot
L.pure.add('cvxopt.blas.dotu')


@L.register('cvxopt.blas.nrm2', pure=True)
def blas_nrm2(ex, st, args, kwargs, n):
    r = ex.fresh_real('nrm2')
    st.pc.append(r.t >= 0)
    return r


L.ext['cvxopt.blas.asum'] = blas_nrm2
L.pure.add('cvxopt.blas.asum')


@L.register('cvxopt.blas.iamax', pure=True)
def blas_iamax(ex, st, args, kwargs, n):
    r = ex.fresh_int('iamax')
    st.pc.append(r.t >= 0)
    return r


def linear_update(ex, st, A, x, y, oldy, trans, alpha, beta, n):
    """y := alpha*op(A)*x + beta*y on ghost values"""
    if not alg.enabled(ex) or not is_matrix(st, A):
        return
    nm = mat(st, A).meta.get('name') or 'M%d' % A.oid
    op = nm if trans == 'N' else nm + 't'
    if mat(st, A).meta.get('lower_only'):
        op = nm        # symmetric operator
    try:
        ka, ta = ex.num(st, alpha, n)
        kb, tb = ex.num(st, beta, n)
    except Exception:
        alg.setval(st, y, None)
        return
    ta = z3.ToReal(ta) if ka == 'int' else ta
    tb = z3.ToReal(tb) if kb == 'int' else tb
    img = alg.scale(alg.apply_op(alg.valof(st, x), op), ta)
    cb, vb = const_of(beta)
    if cb and vb == 0:
        alg.setval(st, y, img)
    else:
        alg.setval(st, y, alg.add(img, alg.scale(oldy, tb)))


def gemv_like(name, what):
    @L.register(name, mutates=['y'])
    def h(ex, st, args, kwargs, n):
        A = arg(args, kwargs, 0, 'A')
        x = arg(args, kwargs, 1, 'x')
        y = arg(args, kwargs, 2, 'y')
        oldy = alg.valof(st, y)
        if y is not None:
            mutate(ex, st, y, what, n)
        trans = arg(args, kwargs, None, 'trans', 'N')
        c, t = const_of(trans)
        full = not any(k in kwargs for k in ('m', 'n', 'ldA', 'incx', 'incy',
                                             'offsetA', 'offsetx',
                                             'offsety'))
        if c and full:
            linear_update(ex, st, A, x, y, oldy, t,
                          arg(args, kwargs, None, 'alpha', 1.0),
                          arg(args, kwargs, None, 'beta', 0.0), n)
        else:
            alg.setval(st, y, None)
        return None
    return h


def _mut(name, params, positions):
    """generic mutator contract: params = names of modified arguments,
    positions = their positional index"""
    @L.register(name, mutates=params)
    def h(ex, st, args, kwargs, n, params=params, positions=positions,
          name=name):
        for p, i in zip(params, positions):
            v = arg(args, kwargs, i, p)
            if v is not None:
                mutate(ex, st, v, name.replace('cvxopt.', ''), n)
        return None
    return h


for _nm, _ps, _is in [
        ('cvxopt.blas.gemv', ['y'], [2]), ('cvxopt.blas.gbmv', ['y'], [4]),
        ('cvxopt.blas.symv', ['y'], [2]), ('cvxopt.blas.hemv', ['y'], [2]),
        ('cvxopt.blas.sbmv', ['y'], [2]), ('cvxopt.blas.hbmv', ['y'], [2]),
        ('cvxopt.blas.trmv', ['x'], [1]), ('cvxopt.blas.tbmv', ['x'], [1]),
        ('cvxopt.blas.trsv', ['x'], [1]), ('cvxopt.blas.tbsv', ['x'], [1]),
        ('cvxopt.blas.ger', ['A'], [2]), ('cvxopt.blas.geru', ['A'], [2]),
        ('cvxopt.blas.syr', ['A'], [1]), ('cvxopt.blas.her', ['A'], [1]),
        ('cvxopt.blas.syr2', ['A'], [2]), ('cvxopt.blas.her2', ['A'], [2]),
        ('cvxopt.blas.gemm', ['C'], [2]), ('cvxopt.blas.symm', ['C'], [2]),
        ('cvxopt.blas.hemm', ['C'], [2]), ('cvxopt.blas.syrk', ['C'], [1]),
        ('cvxopt.blas.herk', ['C'], [1]), ('cvxopt.blas.syr2k', ['C'], [2]),
        ('cvxopt.blas.her2k', ['C'], [2]), ('cvxopt.blas.trmm', ['B'], [1]),
        ('cvxopt.blas.trsm', ['B'], [1]),

        ('cvxopt.base.gemm', ['C'], [2]), ('cvxopt.base.syrk', ['C'], [1]),
        ('cvxopt.base.axpy', ['y'], [1]),
        ('cvxopt.misc.scale', ['x'], [0]), ('cvxopt.misc.scale2', ['x'], [1]),
        ('cvxopt.misc.sinv', ['x'], [0]),
        ('cvxopt.misc.ssqr', ['x'], [0]), ('cvxopt.misc.pack', ['y'], [1]),
        ('cvxopt.misc.pack2', ['x'], [0]), ('cvxopt.misc.unpack', ['y'], [1]),
        ('cvxopt.misc.trisc', ['x'], [0]), ('cvxopt.misc.triusc', ['x'], [0]),
        ('cvxopt.misc.update_scaling', ['W', 'lmbda', 's', 'z'],
         [0, 1, 2, 3]),
        ('cvxopt.lapack.potrf', ['A'], [0]), ('cvxopt.lapack.potrs', ['B'],
                                              [1]),
        ('cvxopt.lapack.sytrf', ['A', 'ipiv'], [0, 1]),
        ('cvxopt.lapack.sytrs', ['B'], [2]),
        ('cvxopt.lapack.getrf', ['A', 'ipiv'], [0, 1]),
        ('cvxopt.lapack.getrs', ['B'], [2]),
        ('cvxopt.lapack.trtrs', ['B'], [1]),
        ('cvxopt.lapack.geqrf', ['A', 'tau'], [0, 1]),
        ('cvxopt.lapack.ormqr', ['C'], [2]),
        ('cvxopt.lapack.gesvd', ['A', 'S', 'U', 'Vt'], [0, 1, 4, 5]),
        ('cvxopt.lapack.syevr', ['A', 'W', 'Z'], [0, 1, 9]),
        ('cvxopt.lapack.syevd', ['A', 'W'], [0, 1]),
        ('cvxopt.lapack.syevx', ['A', 'W', 'Z'], [0, 1, 9]),
        ('cvxopt.lapack.gels', ['A', 'B'], [0, 1]),
        ('cvxopt.lapack.posv', ['A', 'B'], [0, 1]),
        ('cvxopt.lapack.gesv', ['A', 'B', 'ipiv'], [0, 1, 2]),
        ('cvxopt.lapack.sysv', ['A', 'B', 'ipiv'], [0, 1, 2]),
        ('cvxopt.lapack.lacpy', ['B'], [1]),
        ('cvxopt.lapack.pbtrf', ['A'], [0]),
        ('cvxopt.lapack.pbtrs', ['B'], [1]),
        ('cvxopt.lapack.trtri', ['A'], [0]),
        ('cvxopt.lapack.potri', ['A'], [0])]:
    _mut(_nm, _ps, _is)

gemv_like('cvxopt.base.gemv', 'base.gemv')
gemv_like('cvxopt.base.symv', 'base.symv')

for _nm in ('potrf', 'sytrf', 'getrf', 'posv', 'gesv', 'sysv', 'pbtrf',
            'trtri', 'potri', 'potrs', 'trtrs'):
    L.hooks.setdefault('may_raise_arith', set()).add('cvxopt.lapack.' + _nm)


# sprod(x, y, dims, mnl, diag): with diag='N' the product is symmetrised
# sgemv: y := alpha*A*x + beta*y ; with trans='T' and alpha != 0 the upper
#        triangles of the 's' blocks of x are zeroed (trisc ... triusc)
@L.register('cvxopt.misc.sgemv', mutates=['y', 'x (trans=T)'])
def misc_sgemv(ex, st, args, kwargs, n):
    x = arg(args, kwargs, 1, 'x')
    y = arg(args, kwargs, 2, 'y')
    trans = arg(args, kwargs, 4, 'trans', 'N')
    alpha = arg(args, kwargs, 5, 'alpha', 1.0)
    c, t = const_of(trans)
    if not c:
        raise Unsupported('sgemv with symbolic trans')
    if t == 'T':
        ta = ex.truth(st, alpha, n)
        d = ta if isinstance(ta, bool) else ex.decide(st, ta)
        if d is None:
            raise NeedFork(ta)
        if d:
            keep = mat(st, x).f.get('last_max_step') if is_matrix(st, x) \
                else None
            mutate(ex, st, x, "misc.sgemv(trans='T') [trisc/triusc on x]", n,
                   z3.IntVal(0))
            if is_matrix(st, x):
                # net effect on x: the strict upper triangles of the 's'
                # blocks are zeroed; the lower triangles are unchanged
                mat(st, x).f['last_max_step'] = keep
    oldy = alg.valof(st, y)
    mutate(ex, st, y, 'misc.sgemv', n)
    linear_update(ex, st, arg(args, kwargs, 0, 'A'), x, y, oldy, t,
                  alpha, arg(args, kwargs, 6, 'beta', 0.0), n)
    return None


@L.register('cvxopt.misc.sprod', mutates=['x', 'y'])
def misc_sprod(ex, st, args, kwargs, n):
    """sprod(x, y, dims, mnl = 0, diag = 'N'): x := y o x.  With diag = 'N'
    both implementations first write the upper triangles of the 's' blocks
    of y (symm(y, m, offset)): y is modified too (its lower triangles, which
    are all the solvers read, are unchanged) -- established on the C kernel
    by the kernel-frame obligations of contracts/c/misc_spec.py"""
    x = arg(args, kwargs, 0, 'x')
    y = arg(args, kwargs, 1, 'y')
    diag = arg(args, kwargs, 4, 'diag', 'N')
    c, dv = const_of(diag)
    if x is not None:
        mutate(ex, st, x, 'misc.sprod', n)
    if y is not None and not (c and dv == 'D'):
        keep = mat(st, y).f.get('last_max_step') if is_matrix(st, y) else None
        mutate(ex, st, y, "misc.sprod(diag='N') [symmetrises y]", n,
               z3.Int('SYM_ALL'))
        if is_matrix(st, y):
            # the lower triangles are unchanged: max_step(y) is still valid
            mat(st, y).f['last_max_step'] = keep
    return None


@L.register('cvxopt.misc.symm', mutates=['x'])
def misc_symm(ex, st, args, kwargs, n):
    """symm(x, n, offset): symmetrises the n x n block starting at offset.
    Typestate: if the block is the k-th 's' block (offset == base +
    sqsum_s(k), n == dims_s[k]) and blocks < k are symmetric, then blocks
    <= k are."""
    x = arg(args, kwargs, 0, 'x')
    m = arg(args, kwargs, 1, 'n')
    off = arg(args, kwargs, 2, 'offset', 0)
    if not is_matrix(st, x):
        if x is None:
            raise PyRaise('TypeError', 'symm: x must be a matrix')
        return None
    keep = mat(st, x).f.get('last_max_step')
    L.on_mutate(ex, st, x, 'misc.symm', n)
    o = mat(st, x)
    # symm writes only the strict upper triangle of the block; max_step
    # reads only the lower triangles ('L' storage): its value is unchanged
    o.f['last_max_step'] = keep
    blk = st.ghost.get('sblocks')     # (list ref, base term)
    if blk is None:
        o.f['sym'] = z3.IntVal(0)
        return None
    lref, base = blk
    from contracts.py import extern_cvxopt as me
    sq = sqsum_fn(ex, st, lref)
    km, mt = ex.num(st, m, n)
    ko, ot = ex.num(st, off, n)
    cur = o.f['sym']
    # which block is it?  try the active loop indices, then 0
    cands = [v for k_, v in st.ghost.items() if isinstance(k_, tuple) and
             k_[0] == 'loopidx']
    cands.append(z3.IntVal(0))
    new = None
    lo = st.heap[lref.oid]
    for k in cands:
        elem = L.symlist_elem(ex, st, lref, k)
        if not isinstance(elem, I):
            continue
        cond = z3.And(ot == base + sq(k), mt == elem.t, k >= 0,
                      k < lo.f['len'].t)
        if ex.decide(st, cond) is True:
            new = z3.If(cur >= k, z3.If(cur >= k + 1, cur, k + 1), cur)
            break
    o.f['sym'] = new if new is not None else z3.IntVal(0)
    return None


def sqsum_fn(ex, st, lref):
    """prefix sums of squares of a symbolic list: Q(0)=0,
    Q(k+1) = Q(k) + elem(k)^2"""
    o = st.heap[lref.oid]
    q = o.meta.get('sqsum')
    if q is None:
        nm = o.meta.get('name') or ex.fresh('list%d' % lref.oid)
        o.meta['name'] = nm
        q = z3.Function('sqsum[%s]' % nm, z3.IntSort(), z3.IntSort())
        o.meta['sqsum'] = q
        ex.axioms.append(q(0) == 0)
    return q


@L.register('cvxopt.misc.max_step', mutates=['x (with sigma)', 'sigma'])
def misc_max_step(ex, st, args, kwargs, n):
    x = arg(args, kwargs, 0, 'x')
    sigma = arg(args, kwargs, 3, 'sigma')
    if x is None:
        raise PyRaise('TypeError', 'max_step: x must be a matrix')
    if sigma is not None:
        mutate(ex, st, x, 'misc.max_step(sigma=...)', n)
        mutate(ex, st, sigma, 'misc.max_step(sigma=...)', n)
    r = ex.fresh_real('max_step')
    if is_matrix(st, x):
        mat(st, x).f['last_max_step'] = r.t
        if mat(st, x).f.get('unvalidated'):
            ex.oblige(st, 'start-point-validated', True, n,
                      'the start point copied from %s is tested with '
                      'misc.max_step before it is used' % mat(st, x).f[
                          'unvalidated'],
                      extra={'prop': {'conelp': 'C01', 'coneqp': 'C03'}.get(
                          ex.fname, 'C01')})
            # the value of this test decides whether the start point is
            # accepted: on every path that goes on to return a result it must
            # have been strictly negative (coneprog_spec: start-point-interior)
            st.ghost['start_ms'] = tuple(st.ghost.get('start_ms', ())) + ((
                mat(st, x).f['unvalidated'], r.t, getattr(n, 'lineno', 0)),)
            mat(st, x).f['unvalidated'] = None
    return r


@L.register('cvxopt.misc.snrm2', pure=True)
def misc_snrm2(ex, st, args, kwargs, n):
    if alg.enabled(ex):
        x = arg(args, kwargs, 0, 'x')
        t = alg.inner('sip', alg.valof(st, x), alg.valof(st, x), ex)
        if t is not None:
            st.pc.append(t >= 0)
            return L.ext['math.sqrt'](ex, st, [R(t)], {}, n)
    r = ex.fresh_real('snrm2')
    st.pc.append(r.t >= 0)
    return r


@L.register('cvxopt.misc.sdot', pure=True)
def misc_sdot(ex, st, args, kwargs, n):
    return inner_product(ex, st, arg(args, kwargs, 0, 'x'),
                         arg(args, kwargs, 1, 'y'), 'sdot', kind='sip')


L.ext['cvxopt.misc.sdot2'] = misc_sdot
L.pure.add('cvxopt.misc.sdot2')
L.ext['cvxopt.misc.jdot'] = misc_sdot
L.pure.add('cvxopt.misc.jdot')
L.ext['cvxopt.misc.jnrm2'] = misc_snrm2
L.pure.add('cvxopt.misc.jnrm2')


@L.register('cvxopt.misc.compute_scaling', mutates=['lmbda'])
def misc_compute_scaling(ex, st, args, kwargs, n):
    """returns a new scaling dictionary W with entries 'd','di','v','beta',
    'r','rti' and, when mnl is given, 'dnl','dnli' (solver-owned)"""
    lm = arg(args, kwargs, 2, 'lmbda')
    mnl = arg(args, kwargs, 4, 'mnl')
    mutate(ex, st, lm, 'misc.compute_scaling', n)
    ref = ex.alloc(st, 'dict', {'items': {}, 'open': False},
                   {'owner': 'FRESH', 'site': n.lineno, 'name': 'W'})
    keys = ['d', 'di', 'v', 'beta', 'r', 'rti']
    if mnl is not None:
        keys += ['dnl', 'dnli']
    for k in keys:
        st.heap[ref.oid].f['items'][k] = scaling_entry(ex, st, ref, k)
    return ref


def scaling_entry(ex, st, ref, key):
    """entries of a scaling dictionary W are solver-owned matrices / lists"""
    if key in ('d', 'di', 'dnl', 'dnli'):
        return L.new_matrix(ex, st, ex.fresh_int('len_' + key), 1, 'd')
    return ex.alloc(st, 'list', {'len': ex.fresh_int('len_' + key),
                                 'elem': ('unknown',)}, {'owner': 'FRESH'})


def kkt_factory(name):
    @L.register('cvxopt.misc.' + name, pure=True)
    def h(ex, st, args, kwargs, n):
        return Unknown('factor routine of ' + name, role='factor')
    return h


for _k in ('kkt_ldl', 'kkt_ldl2', 'kkt_chol', 'kkt_chol2', 'kkt_qr'):
    kkt_factory(_k)


# ---------------------------------------------------------------------- roles
@L.role('factor')
def role_factor(ex, st, f, args, kwargs, n):
    """factor(W[, H, Df]) of a built-in KKT solver: factors the KKT matrix;
    raises ArithmeticError if it is singular; returns a solve routine.  It
    does not modify its arguments (frame proved under C09 for misc.kkt_*)."""
    if ex.choose(st, n, 'factor_raises'):
        raise PyRaise('ArithmeticError', 'singular KKT matrix (factor)')
    return Unknown('solve routine', role='kktsolve')


@L.role('kktsolver')
def role_kktsolver(ex, st, f, args, kwargs, n):
    """user-supplied kktsolver(W) / kktsolver(x, z, W): may raise
    ArithmeticError; returns a solve routine; must not modify W (documented)"""
    if ex.choose(st, n, 'kktsolver_raises'):
        raise PyRaise('ArithmeticError', 'singular KKT matrix (kktsolver)')
    for a in args:
        if isinstance(a, Ref) and st.heap[a.oid].kind in ('dict', 'matrix'):
            ex.oblige(st, 'frame-callback', st.heap[a.oid].meta.get(
                'owner', 'FRESH') == 'FRESH' or True, n,
                'kktsolver receives its arguments by reference (read-only '
                'by contract)')
    return Unknown('solve routine', role='kktsolve')


@L.role('kktsolve')
def role_kktsolve(ex, st, f, args, kwargs, n):
    """f(x, y, z): solves the KKT system in place; may raise
    ArithmeticError"""
    if ex.choose(st, n, 'solve_raises'):
        raise PyRaise('ArithmeticError', 'KKT solve failed')
    for a in args:
        mutate(ex, st, a, 'KKT solve', n)
    return None


def linop(name, which):
    @L.role(name)
    def h(ex, st, f, args, kwargs, n):
        """operator-form G/A/P: f(x, y, trans, alpha, beta) overwrites y"""
        y = arg(args, kwargs, 1, 'y')
        mutate(ex, st, y, 'user operator ' + which, n)
        return None
    return h


for _r in ('opG', 'opA', 'opP'):
    linop(_r, _r[2:])


@L.role('xnewcopy')
def role_xnewcopy(ex, st, f, args, kwargs, n):
    return Unknown('user vector (new copy)', role='uservec')


@L.role('xdot')
def role_xdot(ex, st, f, args, kwargs, n):
    return inner_product(ex, st, args[0] if args else None,
                         args[1] if len(args) > 1 else None, 'xdot')


@L.role('xaxpy')
def role_xaxpy(ex, st, f, args, kwargs, n):
    mutate(ex, st, arg(args, kwargs, 1, 'y'), 'user axpy', n)
    return None


@L.role('xscal')
def role_xscal(ex, st, f, args, kwargs, n):
    mutate(ex, st, arg(args, kwargs, 1, 'x'), 'user scal', n)
    return None
