"""Contracts for src/python/coneprog.py: argument scenarios, loop invariants
and the return-site obligations of conelp / coneqp and the wrappers
(DESIGN C01, C02, C03, C09, C10).

Top-level postconditions are written from the property statements and
doc/source/coneprog.rst; loop invariants from the code.
"""
import ast, z3
from engine.pyvc.core import (I, R, B, Dyn, Ref, Ext, Unknown, const_of,
                              TAG_NONE, TAG_INT, TAG_FLOAT, TAG_BOOL, TAG_STR,
                              TAG_OBJ, strid, Outcome)
from contracts.py.extern_cvxopt import LIB as L, is_matrix, mat, sqsum_fn, \
    psum_fn


# ------------------------------------------------------------ module globals
def global_options(ex, st):
    g = st.ghost.get('global_options')
    if g is None:
        g = ex.alloc(st, 'dict', {'items': {}, 'open': True},
                     {'owner': 'GLOBAL:solvers.options',
                      'name': 'solvers.options'})
        st.ghost['global_options'] = g
    return g


L.globals[('*', 'options')] = global_options
SYM_AXIOM = z3.Int('SYM_ALL') >= 0
L.globals[('*', 'long')] = lambda ex, st: Ext('builtins.int')
L.globals[('*', '__name__')] = lambda ex, st: 'cvxopt.module'


# ------------------------------------------------------------------ scenarios
def input_matrix(ex, st, name, nrows=None, ncols=None, tc='d', sparse=False):
    nr = nrows if nrows is not None else ex.fresh_int(name + '.nrows')
    nc = ncols if ncols is not None else ex.fresh_int(name + '.ncols')
    for v in (nr, nc):
        if isinstance(v, I):
            ex.axioms.append(v.t >= 0)
    r_ = L.new_matrix(ex, st, nr, nc, tc, owner='INPUT:' + name,
                      sparse=sparse, name=name)
    if ex.cfg.get('algebra'):
        st.heap[r_.oid].f['val'] = {name: z3.RealVal(1)}
    return r_


def symlist(ex, st, name, lo, owner):
    """list of ints >= lo of symbolic length (dims['q'], dims['s'])"""
    ln = ex.fresh_int('len(%s)' % name)
    ex.axioms.append(ln.t >= 0)
    ex.axioms.append(z3.Int('SYM_ALL') >= ln.t)
    f = z3.Function(name, z3.IntSort(), z3.IntSort())
    ref = ex.alloc(st, 'list', {'len': ln, 'elem': ('fn', lambda k, f=f:
                                                    f(k))},
                   {'owner': owner, 'name': name, 'nonneg': lo >= 0,
                    'elemfn': f, 'lo': lo})
    return ref


def input_dims(ex, st, owner='INPUT:dims'):
    l = ex.fresh_int('dims_l')
    q = symlist(ex, st, 'dims_q', 1, owner)
    s = symlist(ex, st, 'dims_s', 0, owner)
    d = ex.alloc(st, 'dict', {'items': {'l': l, 'q': q, 's': s},
                              'open': False}, {'owner': owner,
                                               'name': 'dims'})
    return d


def register_sblocks(ex, st, dref):
    """ghost: where the 's' blocks of a cone vector start
    (dims['l'] + sum(dims['q'])) and the list of their orders"""
    d = st.heap[dref.oid].f['items']
    q, s_ = d['q'], d['s']
    qo = st.heap[q.oid]
    S = psum_fn(ex, st, q)
    base = ex.num(st, d['l'])[1] + S(qo.f['len'].t)
    st.ghost['sblocks'] = (s_, base)


def user_options(ex, st):
    return ex.alloc(st, 'dict', {'items': {}, 'open': True},
                    {'owner': 'INPUT:options', 'name': 'options'})


def kwargs_dict(ex, st, with_options):
    items = {}
    if with_options:
        items['options'] = user_options(ex, st)
        st.ghost['user_options'] = items['options']
    return ex.alloc(st, 'dict', {'items': items, 'open': False},
                    {'owner': 'FRESH', 'name': 'kwargs'})


def start_dict(ex, st, name, keys, n_of):
    items = {}
    for k in keys:
        items[k] = input_matrix(ex, st, "%s['%s']" % (name, k), ncols=1)
    return ex.alloc(st, 'dict', {'items': items, 'open': False},
                    {'owner': 'INPUT:' + name, 'name': name})


def conelp_setup(sc):
    """sc: dict of scenario switches"""
    def setup(ex, st, fid, fn):
        fr = st.frames[fid]
        fr['c'] = input_matrix(ex, st, 'c', ncols=1 if sc.get(
            'welltyped', True) else None)
        fr['G'] = input_matrix(ex, st, 'G', sparse=sc.get('sparseG', None))
        fr['h'] = input_matrix(ex, st, 'h', ncols=1 if sc.get(
            'welltyped', True) else None)
        fr['dims'] = input_dims(ex, st) if sc.get('dims', True) else None
        if fr['dims'] is not None:
            register_sblocks(ex, st, fr['dims'])
        fr['A'] = input_matrix(ex, st, 'A', sparse=sc.get('sparseA', None)) \
            if sc.get('A', True) else None
        fr['b'] = input_matrix(ex, st, 'b', ncols=1) if sc.get('b', True) \
            else None
        fr['primalstart'] = start_dict(ex, st, 'primalstart', ['x', 's'],
                                       None) if sc.get('primalstart') \
            else None
        fr['dualstart'] = start_dict(ex, st, 'dualstart', ['y', 'z'], None) \
            if sc.get('dualstart') else None
        ks = sc.get('kktsolver')
        if ks is None:
            fr['kktsolver'] = None
        elif ks == 'str':
            d = ex.fresh_dyn('kktsolver')
            ex.axioms.append(d.tag == TAG_STR)
            fr['kktsolver'] = d
        else:
            fr['kktsolver'] = Unknown('user kktsolver', role='kktsolver')
        for nm in ('xnewcopy', 'xdot', 'xaxpy', 'xscal', 'ynewcopy', 'ydot',
                   'yaxpy', 'yscal'):
            fr[nm] = None
        fr['kwargs'] = kwargs_dict(ex, st, sc.get('options', False))
        ex.axioms.append(SYM_AXIOM)
        st.ghost['scenario'] = sc
    return setup


CONELP_SCENARIOS = {
    'defaults': {},
    'options+starts': {'options': True, 'primalstart': True,
                       'dualstart': True, 'kktsolver': 'str'},
    'noA-nodims': {'A': False, 'b': False, 'dims': False, 'options': True},
    'userkkt+primalstart': {'kktsolver': 'callable', 'primalstart': True},
    'dualstart-only': {'dualstart': True, 'kktsolver': 'str'},
}


# ------------------------------------------------------------ loop invariants
def dims_lists(ex, st, fid):
    """(dims dict ref, q list ref, s list ref) as seen by the function"""
    d = None
    f = fid
    while f is not None and d is None:
        d = st.frames[f].get('dims')
        f = st.parent.get(f)
    if not isinstance(d, Ref):
        return None
    o = st.heap[d.oid]
    return d, o.f['items'].get('q'), o.f['items'].get('s')


def is_sblock_loop(ex, s):
    """for m in dims['s']: ... ind += m**2 / m*m"""
    if not isinstance(s, ast.For):
        return False
    it = s.iter
    return (isinstance(it, ast.Subscript) and isinstance(it.value, ast.Name)
            and it.value.id == 'dims' and isinstance(it.slice, ast.Constant)
            and it.slice.value == 's')


def sblock_invariant(ex, st, fid, k, it):
    """every offset variable of the enclosing frame that was initialised to
    dims['l'] + sum(dims['q']) before the loop and is advanced by m**2 in
    the body equals  base + sqsum_s(k);  matrices symmetrised in the body
    have their first k 's' blocks symmetric."""
    out = []
    info = st.ghost.get(('sloop', id(it)))
    dl = dims_lists(ex, st, fid)
    if dl is None or not isinstance(it, Ref):
        return out
    d, q, s = dl
    if not (isinstance(s, Ref) and s.oid == it.oid):
        return out
    sq = sqsum_fn(ex, st, it)
    base = sblock_base(ex, st, fid)
    if base is None:
        return out
    lo = st.heap[it.oid]
    # definitional step of the prefix sum at k (needed for preservation)
    e = lo.f['elem'][1]
    st_fact = z3.And(sq(k + 1) == sq(k) + e(k) * e(k))
    return [('__fact__', st_fact)], base, sq


def sblock_base(ex, st, fid):
    dl = dims_lists(ex, st, fid)
    if dl is None:
        return None
    d, q, s = dl
    l = st.heap[d.oid].f['items'].get('l')
    if l is None or not isinstance(q, Ref):
        return None
    kl, tl = ex.num(st, l)
    qo = st.heap[q.oid]
    if 'items' in qo.f:
        tot = 0
        for x in qo.f['items']:
            tot = tot + ex.num(st, x)[1]
        return tl + tot
    S = psum_fn(ex, st, q)
    return tl + S(qo.f['len'].t)


class SBlockInv:
    """invariant object for `for m in dims['s']` loops.  Determined per loop
    from the syntactic shape of the body:
      * names X with `X += m**2` or `X += m*m` in the body:  X == X0 + Q(k)
        where X0 is the value on entry;
      * names Y with `Y += m`:                               Y == Y0 + P(k);
      * matrices V with `misc.symm(V, m, X)` in the body:    sym(V) >= k."""

    def __init__(self, s):
        self.s = s
        self.sq_vars, self.lin_vars, self.symm_vars = [], [], []
        tv = s.target.id if isinstance(s.target, ast.Name) else None
        for st_ in ast.walk(ast.Module(body=s.body, type_ignores=[])):
            if isinstance(st_, ast.AugAssign) and isinstance(
                    st_.op, ast.Add) and isinstance(st_.target, ast.Name):
                v = st_.value
                if isinstance(v, ast.BinOp) and isinstance(v.op, ast.Pow) \
                        and isinstance(v.left, ast.Name) and v.left.id == tv \
                        and isinstance(v.right, ast.Constant) and \
                        v.right.value == 2:
                    self.sq_vars.append(st_.target.id)
                elif isinstance(v, ast.BinOp) and isinstance(
                        v.op, ast.Mult) and all(isinstance(
                            x, ast.Name) and x.id == tv for x in (v.left,
                                                                  v.right)):
                    self.sq_vars.append(st_.target.id)
                elif isinstance(v, ast.Name) and v.id == tv:
                    self.lin_vars.append(st_.target.id)
            if isinstance(st_, ast.Call) and isinstance(
                    st_.func, ast.Attribute) and st_.func.attr == 'symm' \
                    and st_.args and isinstance(st_.args[0], ast.Name):
                self.symm_vars.append(st_.args[0].id)
        self.entry = {}

    def begin(self, ex, st, fid, it):
        st.ghost.pop(('sblock_entry', self.s.lineno), None)

    def __call__(self, ex, st, fid, k, it):
        out = []
        if not isinstance(it, Ref):
            return out
        lo = st.heap[it.oid]
        if 'len' not in lo.f or lo.f.get('elem', ('x',))[0] != 'fn':
            return out
        e = lo.f['elem'][1]
        Q = sqsum_fn(ex, st, it)
        P = psum_fn(ex, st, it)
        key = ('sblock_entry', self.s.lineno)
        ent = st.ghost.get(key)
        if ent is None:
            # first call = initiation: record entry values
            ent = {}
            for v in self.sq_vars + self.lin_vars:
                cur = ex.lookup(st, fid, v, self.s)
                ent[v] = ex.num(st, cur)[1]
            st.ghost[key] = ent
        for v in self.sq_vars:
            cur = ex.num(st, ex.lookup(st, fid, v, self.s))[1]
            out.append(('%s == %s(entry) + sum of squares of the first k '
                        "orders in dims['s']" % (v, v),
                        cur == ent[v] + Q(k)))
        for v in self.lin_vars:
            cur = ex.num(st, ex.lookup(st, fid, v, self.s))[1]
            out.append(("%s == %s(entry) + sum of the first k orders in "
                        "dims['s']" % (v, v), cur == ent[v] + P(k)))
        for v in self.symm_vars:
            m = ex.lookup(st, fid, v, self.s)
            if is_matrix(st, m):
                out.append(("the first k 's' blocks of %s are symmetric" % v,
                            mat(st, m).f['sym'] >= k))
        return out


_sinv_cache = {}


def sblock_matcher(ex, s):
    return is_sblock_loop(ex, s)


def sblock_factory(ex, st, fid, k, it):
    raise RuntimeError


class _SInvDispatch:
    """find_invariant returns one callable per loop; we build it lazily"""

    def __call__(self, ex, s):
        return is_sblock_loop(ex, s)


def _find_invariant(self, ex, s, _orig=L.find_invariant):
    f = _orig(ex, s)
    if f is not None:
        return f
    if is_sblock_loop(ex, s):
        key = (ex.fname, s.lineno, id(s))
        if key not in _sinv_cache:
            _sinv_cache[key] = SBlockInv(s)
        return _sinv_cache[key]
    return None


L.find_invariant = _find_invariant.__get__(L)


def loop_index_sq_hook(ex, st, it, k, _orig=L.hooks.get('loop_index')):
    if _orig:
        _orig(ex, st, it, k)
    lo = st.heap[it.oid]
    if lo.kind == 'list' and 'len' in lo.f and lo.f.get('elem', ('x',))[0] \
            == 'fn':
        e = lo.f['elem'][1]
        Q = sqsum_fn(ex, st, it)
        st.pc.append(Q(k + 1) == Q(k) + e(k) * e(k))
        if lo.meta.get('lo') is not None:
            st.pc.append(e(k) >= lo.meta['lo'])


L.hooks['loop_index'] = loop_index_sq_hook


# -------------------------------------------------------------- return checks
STATUSES = ('optimal', 'unknown', 'primal infeasible', 'dual infeasible')
FIELDS = ('x', 'y', 's', 'z', 'status', 'gap', 'relative gap',
          'primal objective', 'dual objective', 'primal infeasibility',
          'dual infeasibility', 'primal slack', 'dual slack',
          'residual as primal infeasibility certificate',
          'residual as dual infeasibility certificate', 'iterations')


def lookup_opt(ex, st, fid, name):
    f = fid
    while f is not None:
        if name in st.frames[f]:
            return st.frames[f][name]
        f = st.parent.get(f)
    return None


def is_none(ex, st, v):
    """z3 Bool / python bool: v is None"""
    return ex.identical(st, v, None)


def num_or_none(ex, st, v, what):
    """(isnone Bool, z3 Real value) of a result field"""
    if v is None:
        return z3.BoolVal(True), None
    if isinstance(v, Dyn):
        return v.tag == TAG_NONE, z3.If(v.tag == TAG_FLOAT, v.r,
                                        z3.ToReal(v.i))
    k, t = ex.num(st, v)
    return z3.BoolVal(False), (z3.ToReal(t) if k == 'int' else t)


def sym_ok(ex, st, v, slist):
    """symmetry typestate of a returned cone vector"""
    if v is None:
        return z3.BoolVal(True)
    if is_matrix(st, v):
        if slist is None:
            return z3.BoolVal(True)
        lo = st.heap[slist.oid]
        ln = lo.f['len'].t if 'len' in lo.f else z3.IntVal(len(
            lo.f['items']))
        return mat(st, v).f['sym'] >= ln
    return z3.BoolVal(False)


PROP_OF = {'conelp': 'C01', 'lp': 'C01', 'socp': 'C01', 'sdp': 'C01',
           'coneqp': 'C03', 'qp': 'C03', 'cpl': 'C04', 'cp': 'C04',
           'gp': 'C04'}
QP_FIELDS = ('x', 'y', 's', 'z', 'status', 'gap', 'relative gap',
             'primal objective', 'dual objective', 'primal infeasibility',
             'dual infeasibility', 'primal slack', 'dual slack', 'iterations')


def status_cases(ex, st, status, statuses):
    """[(status string, state restricted to it)]"""
    if isinstance(status, str):
        return [(status, st)]
    if isinstance(status, Dyn):
        out = []
        other = [status.tag == TAG_STR]
        for cand in statuses:
            c = z3.And(status.tag == TAG_STR, status.s == strid(cand))
            if ex.check(st.pc, [c]) != z3.unsat:
                st2 = st.copy()
                st2.pc.append(c)
                # obligations recorded on the copy must be visible on the
                # original state: share the list object
                st2.obligs = st.obligs
                out.append((cand, st2))
            other.append(status.s != strid(cand))
        if ex.check(st.pc, [z3.Or(status.tag != TAG_STR, z3.And(other))]) \
                != z3.unsat:
            out.append((None, st))
        return out
    return [(None, st)]


def make_on_outcomes(fname, fields, statuses, tol_names=('FEASTOL', 'ABSTOL',
                                                          'RELTOL',
                                                          'MAXITERS'),
                     svec=('s', 'z'), slack=(('primal slack', 's'),
                                             ('dual slack', 'z')),
                     allowed_exc=('TypeError', 'ValueError')):
    def on_outcomes(ex, outs):
        summ = {'returns': {}, 'raises': {}}
        fid0 = 1
        for o in outs:
            st = o.st
            if o.kind == 'raise':
                et, msg, line = o.val
                summ['raises'][et] = summ['raises'].get(et, 0) + 1
                key = '%s@%s' % (et, line)
                summ.setdefault('raise_sites', {})
                summ['raise_sites'][key] = summ['raise_sites'].get(key, 0) + 1
                ex.oblige(st, 'exception-type', et in allowed_exc, None,
                          'only TypeError/ValueError leave %s (%s raised at '
                          'line %s)' % (fname, et, line),
                          extra={'prop': 'C10'})
                st.obligs[-1].line = line or 0
                if et == 'ValueError' and any(h[0] == 'ArithmeticError'
                                              for h in st.handled):
                    # a ValueError raised from an `except ArithmeticError`
                    # handler is the documented rank error: only during
                    # start-up / the first iteration
                    it = lookup_opt(ex, st, fid0, 'iters')
                    from engine.pyvc.core import UNBOUND
                    if it is None or it is UNBOUND:
                        g = True
                    else:
                        try:
                            g = ex.num(st, it)[1] == 0
                        except Exception:
                            g = False
                    ex.oblige(st, 'rank-error-only-at-start', g, None,
                              'a KKT failure is reported as ValueError '
                              '(rank) only during start-up or the first '
                              'iteration (raise at line %s)' % line,
                              extra={'prop': 'C10'})
                    st.obligs[-1].line = line or 0
                continue
            if o.kind != 'return':
                continue
            v = o.val
            if not (isinstance(v, Ref) and st.heap[v.oid].kind == 'dict'):
                ex.oblige(st, 'returns-dict', False, None,
                          '%s returns a result dictionary on every normal '
                          'exit' % fname, extra={'prop': 'C10'})
                continue
            d = st.heap[v.oid].f['items']
            line = st.heap[v.oid].meta.get('site', 0)
            for src, ms, l0 in st.ghost.get('start_ms', ()):
                # documented: a start point must be strictly inside the cone
                # (s > 0, z > 0 in the cone order), i.e. max_step < 0; a
                # point on the boundary makes compute_scaling divide by zero
                ex.oblige(st, 'start-point-interior', ms < 0, None,
                          'a start point copied from %s is accepted only if '
                          'it lies strictly inside the cone: misc.max_step '
                          'of it (line %s) is negative on every path that '
                          'returns a result' % (src, l0),
                          extra={'prop': 'C10'})
                st.obligs[-1].line = l0 or 0
            check_options_source(ex, st, fid0, fname)
            for status, st2 in status_cases(ex, st, d.get('status'),
                                            statuses):
                summ['returns'][status] = summ['returns'].get(status, 0) + 1
                check_result(ex, st2, d, status, line, fname, fields,
                             statuses, tol_names, svec, slack, fid0)
        return summ
    return on_outcomes


def check_options_source(ex, st, fid0, fname):
    """the dictionary the options were read from is the caller's options=
    argument when one was given, else the module-level one (C09a)"""
    got = lookup_opt(ex, st, fid0, 'options')
    u = st.ghost.get('user_options')
    exp = u if u is not None else global_options(ex, st)
    ex.oblige(st, 'options-source', isinstance(got, Ref) and
              got.oid == exp.oid, None,
              "%s reads its options from %s" % (fname, (
                  "the caller's options= dictionary" if u is not None else
                  'the module-level solvers.options')),
              extra={'prop': 'C09'})


def check_result(ex, st, d, status, line, fname, fields, statuses, tol_names,
                 svec, slack, fid0):
    where = 'return at line %s (%s)' % (line, status)

    cert = status in ('primal infeasible', 'dual infeasible')
    prop = PROP_OF.get(fname, 'C01')
    if cert:
        prop = 'C02'

    def ob(kind, goal, text):
        ex.oblige(st, kind, goal, None, '%s: %s' % (where, text),
                  extra={'prop': 'C10' if kind == 'optimal-not-after-failure'
                         else ('C09' if kind == 'iterations-bound' else
                               prop)})
        st.obligs[-1].line = line

    ob('result-fields', set(d.keys()) == set(fields),
       'the result has exactly the documented keys')
    ob('result-status', status in statuses, 'status is a documented one')
    if set(d.keys()) != set(fields) or status not in statuses:
        return
    F = lambda nm: lookup_opt(ex, st, fid0, nm)
    real = lambda k_t: z3.ToReal(k_t[1]) if k_t[0] == 'int' else k_t[1]
    ft, at, rt = [real(ex.num(st, F(x))) for x in tol_names[:3]]
    mk, mt = ex.num(st, F(tol_names[3]))
    if 'iterations' in d:
        itn, itv = num_or_none(ex, st, d['iterations'], 'iterations')
        ob('iterations-bound', z3.And(z3.Not(itn), itv >= 0,
                                      itv <= z3.ToReal(mt)),
           "0 <= result['iterations'] <= options['maxiters']")
    else:
        # no 'iterations' field (cpl/cp): the bound is stated on the loop
        # counter at the return site
        it = F('iters')
        if it is not None:
            kk, tt = ex.num(st, it)
            ob('iterations-bound', z3.And(tt >= 0, tt <= mt),
               "the iteration counter at the return satisfies 0 <= iters "
               "<= options['maxiters']")
    dl = dims_lists(ex, st, fid0)
    slist = dl[2] if dl else None
    for key in svec:
        ob('symmetric-s-blocks', sym_ok(ex, st, d[key], slist),
           "the 's' blocks of result['%s'] are symmetric" % key)
    handled = [h for h in st.handled if h[0] == 'ArithmeticError']
    vecs = [k for k in ('x', 'y', 's', 'z', 'sl', 'snl', 'zl', 'znl')
            if k in d]
    if ex.cfg.get('algebra') and fname in ('conelp', 'coneqp'):
        algebra_checks(ex, st, d, status, fname, fid0, ob)
    if status == 'optimal':
        ob('optimal-not-after-failure', not handled,
           "status 'optimal' is not returned on a path that caught "
           "ArithmeticError")
        pn, pv = num_or_none(ex, st, d['primal infeasibility'], 'pres')
        dn, dv = num_or_none(ex, st, d['dual infeasibility'], 'dres')
        gn, gv = num_or_none(ex, st, d['gap'], 'gap')
        rn, rv = num_or_none(ex, st, d['relative gap'], 'relgap')
        goal = z3.And(z3.Not(pn), z3.Not(dn), z3.Not(gn), pv <= ft,
                      dv <= ft, z3.Or(gv <= at, z3.And(z3.Not(rn),
                                                       rv <= rt)))
        ob('optimal-criteria', goal,
           "result['primal infeasibility'] <= feastol, result['dual "
           "infeasibility'] <= feastol and (result['gap'] <= abstol or "
           "result['relative gap'] <= reltol)")
        for key in ('residual as primal infeasibility certificate',
                    'residual as dual infeasibility certificate'):
            if key in d:
                ob('certificate-fields-none', is_none(ex, st, d[key]),
                   "result['%s'] is None" % key)
        for key in vecs:
            ob('vectors-present', z3.Not(bz(is_none(ex, st, d[key]))),
               "result['%s'] is not None" % key)
        slack_bindings(ex, st, d, ob, slack)
    elif status == 'unknown':
        for key in vecs:
            ob('vectors-present', z3.Not(bz(is_none(ex, st, d[key]))),
               "result['%s'] is not None" % key)
        slack_bindings(ex, st, d, ob, slack)
    elif status == 'primal infeasible':
        ob('optimal-not-after-failure', not handled,
           "a certificate is not returned on a path that caught "
           "ArithmeticError")
        for key in ('x', 's', 'gap', 'relative gap', 'primal objective',
                    'primal infeasibility', 'dual infeasibility',
                    'primal slack',
                    'residual as dual infeasibility certificate'):
            ob('certificate-none-pattern', is_none(ex, st, d[key]),
               "result['%s'] is None" % key)
        for key in ('y', 'z'):
            ob('vectors-present', z3.Not(bz(is_none(ex, st, d[key]))),
               "result['%s'] is not None" % key)
        cn, cv = num_or_none(ex, st, d[
            'residual as primal infeasibility certificate'], 'pinfres')
        ob('certificate-residual', z3.And(z3.Not(cn), cv <= ft),
           "result['residual as primal infeasibility certificate'] <= "
           "feastol")
        on, ov = num_or_none(ex, st, d['dual objective'], 'dcost')
        ob('certificate-objective', z3.And(z3.Not(on), ov == 1),
           "result['dual objective'] == 1.0  (h'z + b'y = -1)")
        slack_bindings(ex, st, d, ob, [x for x in slack if x[1] == 'z'])
    elif status == 'dual infeasible':
        ob('optimal-not-after-failure', not handled,
           "a certificate is not returned on a path that caught "
           "ArithmeticError")
        for key in ('y', 'z', 'gap', 'relative gap', 'dual objective',
                    'primal infeasibility', 'dual infeasibility',
                    'dual slack',
                    'residual as primal infeasibility certificate'):
            ob('certificate-none-pattern', is_none(ex, st, d[key]),
               "result['%s'] is None" % key)
        for key in ('x', 's'):
            ob('vectors-present', z3.Not(bz(is_none(ex, st, d[key]))),
               "result['%s'] is not None" % key)
        cn, cv = num_or_none(ex, st, d[
            'residual as dual infeasibility certificate'], 'dinfres')
        ob('certificate-residual', z3.And(z3.Not(cn), cv <= ft),
           "result['residual as dual infeasibility certificate'] <= "
           "feastol")
        on, ov = num_or_none(ex, st, d['primal objective'], 'pcost')
        ob('certificate-objective', z3.And(z3.Not(on), ov == -1),
           "result['primal objective'] == -1.0  (c'x = -1)")
        slack_bindings(ex, st, d, ob, [x for x in slack if x[1] == 's'])


conelp_on_outcomes = make_on_outcomes('conelp', FIELDS, STATUSES)
coneqp_on_outcomes = make_on_outcomes('coneqp', QP_FIELDS, ('optimal',
                                                            'unknown'))


def bz(v):
    return z3.BoolVal(v) if isinstance(v, bool) else v


def slack_bindings(ex, st, d, ob, pairs):
    """'primal slack' == -max_step(returned s), evaluated on the lower
    triangles of the returned vector (and likewise for z)"""
    for key, vec in pairs:
        v = d[vec]
        sn, sv = num_or_none(ex, st, d[key], key)
        if not is_matrix(st, v):
            continue
        last = mat(st, v).f.get('last_max_step')
        if last is None:
            c, k_ = const_of(d[key])
            if c and k_ == 0.0 and const_of(mat(st, v).f['nrows'])[1] == 0:
                ob('slack-binding', True, "result['%s'] of an empty cone "
                   "is 0" % key)
                continue
            ob('slack-binding', False, "result['%s'] is -max_step of the "
               "returned %s" % (key, vec))
        else:
            ob('slack-binding', z3.And(z3.Not(sn), sv == -last),
               "result['%s'] == -max_step(result['%s'])" % (key, vec))


def coneqp_setup(sc):
    def setup(ex, st, fid, fn):
        fr = st.frames[fid]
        fr['P'] = input_matrix(ex, st, 'P', sparse=sc.get('sparseP', None))
        st.heap[fr['P'].oid].meta['lower_only'] = True
        fr['q'] = input_matrix(ex, st, 'q', ncols=1)
        fr['G'] = input_matrix(ex, st, 'G', sparse=None) if sc.get(
            'G', True) else None
        fr['h'] = input_matrix(ex, st, 'h', ncols=1) if sc.get('G', True) \
            else None
        fr['dims'] = input_dims(ex, st) if sc.get('dims', True) else None
        if fr['dims'] is not None:
            register_sblocks(ex, st, fr['dims'])
        fr['A'] = input_matrix(ex, st, 'A', sparse=None) if sc.get(
            'A', True) else None
        fr['b'] = input_matrix(ex, st, 'b', ncols=1) if sc.get('b', True) \
            else None
        iv = sc.get('initvals')
        fr['initvals'] = start_dict(ex, st, 'initvals', iv, None) if iv \
            else None
        ks = sc.get('kktsolver')
        if ks is None:
            fr['kktsolver'] = None
        elif ks == 'str':
            d = ex.fresh_dyn('kktsolver')
            ex.axioms.append(d.tag == TAG_STR)
            fr['kktsolver'] = d
        else:
            fr['kktsolver'] = Unknown('user kktsolver', role='kktsolver')
        for nm in ('xnewcopy', 'xdot', 'xaxpy', 'xscal', 'ynewcopy', 'ydot',
                   'yaxpy', 'yscal'):
            fr[nm] = None
        if sc.get('customy'):
            fr['A'] = Unknown('operator A', role='opA')
            for nm, role in (('ynewcopy', 'xnewcopy'), ('ydot', 'xdot'),
                             ('yaxpy', 'xaxpy'), ('yscal', 'xscal')):
                fr[nm] = Unknown('user ' + nm, role=role)
        fr['kwargs'] = kwargs_dict(ex, st, sc.get('options', False))
        ex.axioms.append(SYM_AXIOM)
        st.ghost['scenario'] = sc
    return setup


CONEQP_SCENARIOS = {
    'customy-nob': {'customy': True, 'b': False, 'kktsolver': 'callable'},
    'defaults': {},
    'options+initvals': {'options': True, 'initvals': ['x', 's', 'y', 'z'],
                         'kktsolver': 'str'},
    'noG-noA': {'G': False, 'A': False, 'b': False, 'dims': False,
                'options': True},
    'userkkt+partial-initvals': {'kktsolver': 'callable',
                                 'initvals': ['x', 'z']},
}
def relgap_assigned(ex, st, fid, v, s):
    """every assignment `relgap = ...` in a solver follows the documented
    definition: gap / -pcost if pcost < 0, gap / dcost if dcost > 0, None
    otherwise (pcost, dcost, gap: the variables of those names at that
    point)"""
    fr = st.frames[fid]
    if not all(k in fr for k in ('gap', 'pcost', 'dcost')):
        return
    try:
        g = ex.num(st, fr['gap'])
        p_ = ex.num(st, fr['pcost'])
        d_ = ex.num(st, fr['dcost'])
    except Exception:
        return
    real = lambda kt: z3.ToReal(kt[1]) if kt[0] == 'int' else kt[1]
    gv, pv, dv = real(g), real(p_), real(d_)
    fdiv = z3.Function('fdiv', z3.RealSort(), z3.RealSort(), z3.RealSort())
    if v is None:
        goal = z3.And(z3.Not(pv < 0), z3.Not(dv > 0))
    else:
        try:
            rv = real(ex.num(st, v))
        except Exception:
            ex.oblige(st, 'relgap-definition', False, s,
                      'relgap is assigned a number or None',
                      extra={'prop': FPROP.get(ex.fname, 'C01')})
            return
        goal = z3.If(pv < 0, rv == fdiv(gv, -pv), z3.And(
            dv > 0, rv == fdiv(gv, dv)))
    ex.oblige(st, 'relgap-definition', goal, s,
              'relgap = gap / -pcost if pcost < 0, gap / dcost if dcost > 0, '
              'None otherwise (assignment at line %s)' % s.lineno,
              extra={'prop': FPROP.get(ex.fname, 'C01')})


def _fdiv_axioms(t):
    """fdiv(a, b) * b == a (b != 0) for every application inside t: the
    uninterpreted quotient is the real quotient (used only for the small
    definition obligations below)"""
    out, seen, stack = [], set(), [t]
    while stack:
        e = stack.pop()
        if e.get_id() in seen:
            continue
        seen.add(e.get_id())
        if z3.is_app(e):
            if e.decl().name() == 'fdiv' and e.num_args() == 2:
                a, b = e.arg(0), e.arg(1)
                out.append(z3.Implies(b != 0, e * b == a))
            stack.extend(e.children())
    return out


def certificate_residual_assigned(which):
    """every assignment of pinfres / dinfres in conelp follows the
    documented definition (coneprog.rst):
      pinfres = ||G'z + A'y|| / ( -(h'z + b'y) * max(1, ||c||) )   [resx0]
      dinfres = max( ||Gx + s|| / ( -c'x * max(1, ||h||) ),
                     ||Ax||    / ( -c'x * max(1, ||b||) ) )
    in terms of the variables hresx, hresy, hresz, resx0, resy0, resz0, hz,
    by, cx of the function (real arithmetic, small formula)"""
    def h(ex, st, fid, v, s):
        fr = st.frames[fid]
        real = lambda kt: z3.ToReal(kt[1]) if kt[0] == 'int' else kt[1]

        def get(nm):
            return real(ex.num(st, fr[nm]))
        if v is None:
            return
        try:
            rv = real(ex.num(st, v))
            if which == 'pinfres':
                den = -(get('hz') + get('by'))
                want = get('hresx') / (den * get('resx0'))
                pos = [den > 0, get('resx0') > 0]
            else:
                den = -get('cx')
                t1 = get('hresz') / (den * get('resz0'))
                t2 = get('hresy') / (den * get('resy0'))
                want = z3.If(t1 >= t2, t1, t2)
                pos = [den > 0, get('resy0') > 0, get('resz0') > 0]
        except Exception:
            return
        ax = _fdiv_axioms(rv)
        ex.oblige(st, 'certificate-definition', z3.Implies(
            z3.And(ax + pos), rv == want), s,
            '%s is assigned the documented residual (line %s)' % (
                which, s.lineno), extra={'prop': 'C02'})
    return h


FPROP = {'conelp': 'C01', 'coneqp': 'C03', 'cpl': 'C04'}


FUNCS = {
    'conelp': {'setup': conelp_setup, 'scenarios': CONELP_SCENARIOS,
               'on_outcomes': conelp_on_outcomes,
               'config': {'unroll': 4,
                          'watch_assign': {
                              'relgap': relgap_assigned,
                              'pinfres': certificate_residual_assigned(
                                  'pinfres'),
                              'dinfres': certificate_residual_assigned(
                                  'dinfres')}}},
    'conelp#algebra': {'function': 'conelp', 'setup': conelp_setup,
                       'scenarios': {'defaults': {}},
                       'on_outcomes': conelp_on_outcomes,
                       'config': {'unroll': 4, 'algebra': True}},
    'coneqp': {'setup': coneqp_setup, 'scenarios': CONEQP_SCENARIOS,
               'on_outcomes': coneqp_on_outcomes,
               'config': {'unroll': 4,
                          'watch_assign': {'relgap': relgap_assigned}}},
}


LOWER_OK = ('cvxopt.base.symv', 'builtins.isinstance', 'builtins.type',
            'builtins.len')


def pre_call_lower_only(ex, st, name, args, kwargs, n):
    """P is given in 'L' storage: only its lower triangle may be read, i.e.
    inside coneqp it may only be passed to base.symv (which reads the lower
    triangle by default) or handed to the KKT factor routine"""
    for v in list(args) + list(kwargs.values()):
        if isinstance(v, Ref) and v.oid in st.heap and st.heap[
                v.oid].meta.get('lower_only') and name not in LOWER_OK:
            ex.oblige(st, 'lower-triangle-only', False, n,
                      'P is only read through base.symv (lower triangle); '
                      'it is passed to %s' % name, extra={'prop': 'C03'})
    if name == 'cvxopt.base.symv':
        up = kwargs.get('uplo', 'L')
        for v in list(args)[:1]:
            if isinstance(v, Ref) and v.oid in st.heap and st.heap[
                    v.oid].meta.get('lower_only'):
                ex.oblige(st, 'lower-triangle-only', up == 'L', n,
                          "base.symv(P, ...) is called with uplo='L'",
                          extra={'prop': 'C03'})


L.hooks['pre_call'] = pre_call_lower_only


# --------------------------------------------------------------- G4 algebra
from contracts.py import algebra as alg


def loop_assume(ex, st, fid, s):
    """numerical invariant of the homogeneous self-dual embedding that the
    rescalings rely on: tau > 0 (ASSUMED, listed)"""
    if not ex.cfg.get('algebra'):
        return
    if isinstance(s, ast.For) and isinstance(s.target, ast.Name) and \
            s.target.id == 'iters':
        tau = lookup_opt(ex, st, fid, 'tau')
        if isinstance(tau, (R, I)):
            st.pc.append(ex.num(st, tau)[1] > 0)
            ex.trusted.add('assumption: tau > 0 at the head of every conelp '
                           'iteration (numerical invariant of the embedding)')


L.hooks['loop_assume'] = loop_assume


def opname(st, v, fallback):
    if is_matrix(st, v):
        return mat(st, v).meta.get('name') or 'M%d' % v.oid
    return fallback


def norm_def(hyp, t, tag):
    """fresh r with r >= 0 and r*r == t (added to the hypotheses)"""
    r = z3.Real('norm!' + tag)
    hyp.append(z3.And(r >= 0, r * r == t))
    return r


def zmaxr(a, b):
    return z3.If(a >= b, a, b)


def algebra_checks(ex, st, d, status, fname, fid0, ob):
    """the accuracy fields of the result equal the documented expressions
    recomputed from the *returned* vectors and the caller's data"""
    F = lambda nm: lookup_opt(ex, st, fid0, nm)
    X, Y = alg.valof(st, d.get('x')), alg.valof(st, d.get('y'))
    S, Z = alg.valof(st, d.get('s')), alg.valof(st, d.get('z'))
    cn = 'c' if fname == 'conelp' else 'q'
    c = alg.valof(st, F(cn))
    b, h = alg.valof(st, F('b')), alg.valof(st, F('h'))
    An, Gn = opname(st, F('A'), 'A'), opname(st, F('G'), 'G')

    def num(key):
        try:
            k, t = ex.num(st, d[key])
            return z3.ToReal(t) if k == 'int' else t
        except Exception:
            return None

    def obl(text, hyp, goal, need):
        if any(x is None for x in need):
            ob('field-recomputed', False, text + ' (the value of a returned '
               'vector is not tracked on this path)')
            return
        ob('field-recomputed', z3.Implies(z3.And(hyp) if hyp else
                                          z3.BoolVal(True), goal), text)
    add, sc, ap, ip = alg.add, alg.scale, alg.apply_op, alg.inner
    m1 = z3.RealVal(-1)
    if status in ('optimal', 'unknown'):
        if fname == 'conelp':
            f = num('primal objective')
            obl("result['primal objective'] == c'x for the returned x",
                [], f == ip('ip', c, X) if None not in (f, c, X) else None,
                [f, c, X])
            f = num('dual objective')
            obl("result['dual objective'] == -b'y - h'z for the returned "
                "y, z", [], f == -ip('ip', b, Y) - ip('sip', h, Z)
                if None not in (f, b, Y, h, Z) else None, [f, b, Y, h, Z])
            rx = add(add(ap(Y, An + 't'), ap(Z, Gn + 't')), c)
        else:
            PX = ap(X, opname(st, F('P'), 'P'))
            f = num('primal objective')
            obl("result['primal objective'] == (1/2)x'Px + q'x", [],
                f == ip('ip', X, PX) / 2 + ip('ip', c, X)
                if None not in (f, c, X) else None, [f, c, X])
            rx = add(add(add(PX, c), ap(Y, An + 't')), ap(Z, Gn + 't'))
        f = num('dual infeasibility')
        hyp = []
        if None not in (rx, c, f):
            nr = norm_def(hyp, ip('ip', rx, rx), 'rx')
            nc = norm_def(hyp, ip('ip', c, c), cn)
            obl("result['dual infeasibility'] == ||%sA'y + G'z + %s|| / "
                "max(1,||%s||) for the returned y, z" % (
                    'Px + ' if fname != 'conelp' else '', cn, cn),
                hyp, f == nr / zmaxr(1, nc),
                [f])
        else:
            obl("result['dual infeasibility'] is the recomputed residual",
                [], None, [None])
        ry = add(ap(X, An), sc(b, m1))
        rz = add(add(ap(X, Gn), S), sc(h, m1))
        f = num('primal infeasibility')
        hyp = []
        if None not in (ry, rz, b, h, f):
            n1 = norm_def(hyp, ip('ip', ry, ry), 'ry')
            n2 = norm_def(hyp, ip('sip', rz, rz), 'rz')
            nb = norm_def(hyp, ip('ip', b, b), 'b')
            nh = norm_def(hyp, ip('sip', h, h), 'h')
            obl("result['primal infeasibility'] == max(||Ax-b||/max(1,||b||)"
                ", ||Gx+s-h||/max(1,||h||)) for the returned x, s", hyp,
                f == zmaxr(n1 / zmaxr(1, nb), n2 / zmaxr(1, nh)), [f])
        else:
            obl("result['primal infeasibility'] is the recomputed residual",
                [], None, [None])
    elif status == 'primal infeasible':
        hyp = []
        if None not in (h, Z, b, Y):
            obl("h'z + b'y == -1 for the returned certificate", [],
                ip('sip', h, Z) + ip('ip', b, Y) == -1, [1])
        else:
            obl("h'z + b'y == -1 for the returned certificate", [], None,
                [None])
        w = add(ap(Z, Gn + 't'), ap(Y, An + 't'))
        f = num('residual as primal infeasibility certificate')
        if None not in (w, c, f):
            nw = norm_def(hyp, ip('ip', w, w), 'w')
            nc = norm_def(hyp, ip('ip', c, c), 'c')
            obl("result['residual as primal infeasibility certificate'] == "
                "||G'z + A'y|| / max(1,||c||)", hyp, f == nw / zmaxr(1, nc),
                [f])
        else:
            obl('certificate residual is the recomputed one', [], None,
                [None])
    elif status == 'dual infeasible':
        hyp = []
        if None not in (c, X):
            obl("c'x == -1 for the returned certificate", [],
                ip('ip', c, X) == -1, [1])
        else:
            obl("c'x == -1 for the returned certificate", [], None, [None])
        r1 = add(ap(X, Gn), S)
        r2 = ap(X, An)
        f = num('residual as dual infeasibility certificate')
        if None not in (r1, r2, h, b, f):
            n1 = norm_def(hyp, ip('sip', r1, r1), 'r1')
            n2 = norm_def(hyp, ip('ip', r2, r2), 'r2')
            nb = norm_def(hyp, ip('ip', b, b), 'b')
            nh = norm_def(hyp, ip('sip', h, h), 'h')
            obl("result['residual as dual infeasibility certificate'] == "
                "max(||Gx+s||/max(1,||h||), ||Ax||/max(1,||b||))", hyp,
                f == zmaxr(n1 / zmaxr(1, nh), n2 / zmaxr(1, nb)), [f])
        else:
            obl('certificate residual is the recomputed one', [], None,
                [None])
