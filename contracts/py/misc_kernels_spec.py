"""C08, the cone kernels that are written in Python in misc.py (the code that
runs also when use_C = True): sgemv, snrm2, jdot, jnrm2.

Each function is executed by pyvc over the current AST for all argument
values; the module-level bindings it uses (`from cvxopt import base, blas`,
`if use_C: trisc = misc_solvers.trisc ...`) are read off the module AST on
every run.  Contracts (from the doc strings / the definitions in the property
statement), as obligations on the sequence of library calls and on the value
returned:

  sgemv   y := alpha*A*x + beta*y (trans 'N') or alpha*A'*x + beta*y ('T'):
          exactly one base.gemv(A, x, y, trans=trans, alpha=alpha, beta=beta,
          m = l + sum(q) + sum(s_k^2), n = n or A.size[1], offsets passed
          through); for trans = 'T' and alpha != 0 it is bracketed by
          trisc(x, dims, offsetx) and triusc(x, dims, offsetx) ON THE SAME
          vector, dims and offset (so that x is restored), otherwise no other
          call touches x
  snrm2   sqrt(sdot(x, x, dims, mnl))
  jdot    x[offsetx]*y[offsety] - blas.dot(x, y, n = n-1, offsetx =
          offsetx+1, offsety = offsety+1); ValueError when n is None and the
          lengths differ
  jnrm2   sqrt(x[offset] - a) * sqrt(x[offset] + a), a = blas.nrm2(x, n = n-1,
          offset = offset+1)

TRUSTED: the contracts of base.gemv, blas.dot, blas.nrm2, misc.sdot, misc.trisc,
misc.triusc (contracts/py/extern_cvxopt.py; trisc/triusc/sdot are discharged
on the C kernels in contracts/c/kernels_spec.py); floating-point products are
uninterpreted (compared as written).
"""
import ast, z3
from engine.pyvc import core
from engine.pyvc.core import Dyn, Ref, R, B, I, Ext, Unsupported
from contracts.py import coneprog_spec as CS
from contracts.py.extern_cvxopt import LIB as L

_prev = L.hooks.get('pre_call')


def pre_call(ex, st, name, args, kwargs, n):
    if st.ghost.get('log_calls') is not None:
        st.ghost['log_calls'] = st.ghost['log_calls'] + [
            (name, list(args), dict(kwargs), n.lineno)]
    if _prev:
        _prev(ex, st, name, args, kwargs, n)


L.hooks['pre_call'] = pre_call


def bind_module_level(ex, st, fid):
    """the module-level bindings of misc.py that the functions use, read
    off the module AST: imports, constant assignments, and the taken branch
    of every top-level `if <constant name>:` (the use_C switch)"""
    fr = st.frames[fid]
    consts = {}

    def do(stmts):
        for s in stmts:
            if isinstance(s, ast.Import):
                ex.st_Import(s, st, fid)
            elif isinstance(s, ast.ImportFrom):
                ex.st_ImportFrom(s, st, fid)
            elif isinstance(s, ast.Assign) and len(s.targets) == 1 and \
                    isinstance(s.targets[0], ast.Name):
                t = s.targets[0].id
                if isinstance(s.value, ast.Constant):
                    consts[t] = s.value.value
                elif isinstance(s.value, ast.Attribute) and isinstance(
                        s.value.value, ast.Name) and \
                        s.value.value.id == 'misc_solvers':
                    fr[t] = Ext('cvxopt.misc.' + s.value.attr)
            elif isinstance(s, ast.If) and isinstance(s.test, ast.Name) and \
                    s.test.id in consts:
                do(s.body if consts[s.test.id] else s.orelse)
    do(ex.mod.body)


def common(ex, st, fid):
    bind_module_level(ex, st, fid)
    st.ghost['log_calls'] = []
    st.ghost['log_reads'] = []
    st.ghost['frame_check'] = False
    return st.frames[fid]


def lib_calls(st):
    return [c for c in st.ghost['log_calls']
            if not c[0].startswith('builtins.')]


def same(ex, st, a, b):
    """formula / bool: two values are the same argument"""
    if isinstance(a, Ref) and isinstance(b, Ref):
        return a.oid == b.oid
    if isinstance(a, (I, R)) and isinstance(b, (I, R)):
        ta, tb = a.t, b.t
        if z3.is_int(ta) != z3.is_int(tb):
            ta = z3.ToReal(ta) if z3.is_int(ta) else ta
            tb = z3.ToReal(tb) if z3.is_int(tb) else tb
        return ta == tb
    if isinstance(a, Dyn) and isinstance(b, Dyn):
        return z3.And(a.tag == b.tag, a.i == b.i, a.r == b.r, a.s == b.s)
    if isinstance(a, (int, float, str)) and isinstance(b, (I, R)):
        return b.t == a
    if isinstance(b, (int, float, str)) and isinstance(a, (I, R)):
        return a.t == b
    if a is None or b is None:
        return a is b
    try:
        return bool(a == b)
    except Exception:
        return False


def argval(call, pos, name, default=None):
    if name in call[2]:
        return call[2][name]
    if pos is not None and pos < len(call[1]):
        return call[1][pos]
    return default


def mk_ob(ex, st, node_line):
    class N:
        lineno = node_line
        col_offset = 0
    return N()


def oblige(ex, st, kind, goal, text, line=0):
    if isinstance(goal, bool):
        goal = z3.BoolVal(goal)
    ex.oblige(st, kind, goal, mk_ob(ex, st, line), text,
              extra={'prop': 'C08'})


# ------------------------------------------------------------------ sgemv
def sgemv_setup(sc):
    def setup(ex, st, fid, fn):
        fr = common(ex, st, fid)
        fr['A'] = CS.input_matrix(ex, st, 'A', sparse=sc.get('sparse',
                                                               False))
        fr['x'] = CS.input_matrix(ex, st, 'x', ncols=1)
        fr['y'] = CS.input_matrix(ex, st, 'y', ncols=1)
        fr['dims'] = CS.input_dims(ex, st)
        tr = ex.fresh_dyn('trans')
        st.pc.append(tr.tag == core.TAG_STR)
        st.pc.append(z3.Or(tr.s == core.strid('N'), tr.s == core.strid('T')))
        fr['trans'] = tr
        fr['alpha'] = R(z3.Real('alpha'))
        fr['beta'] = R(z3.Real('beta'))
        fr['n'] = I(z3.Int('n')) if sc.get('n') else None
        for k in ('offsetA', 'offsetx', 'offsety'):
            fr[k] = I(z3.Int(k))
        st.ghost['args'] = dict(fr)
    return setup


def sgemv_outcomes(ex, outs):
    nret = 0
    for o in outs:
        st = o.st
        a = st.ghost['args']
        if o.kind != 'return':
            oblige(ex, st, 'kernel-definition', False,
                   'sgemv returns normally (it ends with %s)' % (o.val,))
            continue
        nret += 1
        calls = lib_calls(st)
        names = [c[0] for c in calls]
        tr = a['trans']
        scaled = z3.And(tr.s == core.strid('T'), a['alpha'].t != 0)
        r = ex.check(st.pc, [scaled])
        r2 = ex.check(st.pc, [z3.Not(scaled)])
        if r != z3.unsat and r2 != z3.unsat:
            oblige(ex, st, 'kernel-definition', False,
                   'the paths of sgemv separate (trans = T and alpha != 0) '
                   'from the other cases')
            continue
        want = ['cvxopt.misc.trisc', 'cvxopt.base.gemv',
                'cvxopt.misc.triusc'] if r != z3.unsat else \
            ['cvxopt.base.gemv']
        oblige(ex, st, 'kernel-definition', names == want,
               'sgemv makes exactly the calls %s in this order (%s)' % (
                   ', '.join(w.split('.')[-1] for w in want),
                   'trans = T, alpha != 0' if len(want) == 3 else
                   'trans = N or alpha = 0'))
        if names != want:
            continue
        for c in calls:
            nm = c[0].split('.')[-1]
            if nm in ('trisc', 'triusc'):
                g = z3.And(
                    z3.BoolVal(same(ex, st, argval(c, 0, 'x'), a['x'])
                               is True),
                    z3.BoolVal(same(ex, st, argval(c, 1, 'dims'), a['dims'])
                               is True),
                    same(ex, st, argval(c, 2, 'offset', 0), a['offsetx']))
                oblige(ex, st, 'kernel-definition', g,
                       'sgemv calls %s(x, dims, offsetx): on its own x and '
                       'dims, at the offset of x' % nm, c[3])
            else:
                n_want = a['n'] if a['n'] is not None else I(
                    st.heap[a['A'].oid].f['ncols'].t if isinstance(
                        st.heap[a['A'].oid].f['ncols'], I) else
                    z3.IntVal(st.heap[a['A'].oid].f['ncols']))
                conj = [z3.BoolVal(same(ex, st, argval(c, 0, 'A'), a['A'])
                                   is True),
                        z3.BoolVal(same(ex, st, argval(c, 1, 'x'), a['x'])
                                   is True),
                        z3.BoolVal(same(ex, st, argval(c, 2, 'y'), a['y'])
                                   is True)]
                for k, w in (('trans', a['trans']), ('alpha', a['alpha']),
                             ('beta', a['beta']), ('n', n_want),
                             ('offsetA', a['offsetA']),
                             ('offsetx', a['offsetx']),
                             ('offsety', a['offsety'])):
                    v = c[2].get(k)
                    s_ = same(ex, st, v, w) if v is not None else False
                    conj.append(z3.BoolVal(s_) if isinstance(s_, bool)
                                else s_)
                oblige(ex, st, 'kernel-definition', z3.And(conj),
                       'sgemv calls base.gemv(A, x, y, trans=trans, '
                       'alpha=alpha, beta=beta, n = n or A.size[1], offsetA, '
                       'offsetx, offsety passed through)', c[3])
                # m = l + sum(q) + sum(s_k^2)
                m = c[2].get('m')
                d = st.heap[a['dims'].oid].f['items']
                ql, sl = st.heap[d['q'].oid], st.heap[d['s'].oid]
                from contracts.py.extern_cvxopt import psum_fn
                Sq = psum_fn(ex, st, d['q'])
                sq_lists = [(oid, ob_) for oid, ob_ in st.heap.items()
                            if ob_.kind == 'list' and ob_.meta.get('src')
                            is not None and ob_.meta['src'].oid ==
                            d['s'].oid and ob_.f.get('elem', ('',))[0] ==
                            'fn']
                okm = False
                if isinstance(m, I) and sq_lists:
                    k = z3.Int('k?')
                    sfn = sl.f['elem'][1]
                    for oid, ob_ in sq_lists:
                        S2 = psum_fn(ex, st, Ref(oid))
                        ek = ob_.f['elem'][1](k)
                        ek = ek.t if isinstance(ek, (I, R)) else ek
                        if ex.check(st.pc, [ek != sfn(k) * sfn(k)]) == \
                                z3.unsat and ex.check(st.pc, [
                                    m.t != d['l'].t + Sq(ql.f['len'].t) +
                                    S2(sl.f['len'].t)]) == z3.unsat:
                            okm = True
                oblige(ex, st, 'kernel-definition', okm,
                       'sgemv passes m = l + sum(q) + sum of the squares of '
                       'the entries of s to base.gemv', c[3])
    oblige(ex, outs[0].st, 'covered', nret >= 2,
           'both cases of sgemv are reached')
    return {'paths': len(outs)}


# ---------------------------------------------------------- snrm2 / j*
def vec_setup(sc):
    def setup(ex, st, fid, fn):
        fr = common(ex, st, fid)
        fr['x'] = CS.input_matrix(ex, st, 'x', ncols=1)
        fr['y'] = CS.input_matrix(ex, st, 'y', ncols=1)
        fr['n'] = I(z3.Int('n')) if sc.get('n', True) else None
        for k in ('offsetx', 'offsety', 'offset', 'mnl'):
            fr[k] = I(z3.Int(k))
        fr['dims'] = CS.input_dims(ex, st)
        st.ghost['args'] = dict(fr)
    return setup


def reads_of(st, ref, idx_t):
    """symbols that stand for ref[idx]"""
    out = []
    for r, idx, val in st.ghost['log_reads']:
        if isinstance(r, Ref) and r.oid == ref.oid and isinstance(idx, I) \
                and isinstance(val, R):
            out.append((idx.t, val.t))
    return out


def one_call(ex, st, name, text):
    calls = [c for c in lib_calls(st) if c[0] != 'math.sqrt']
    ok = len(calls) == 1 and calls[0][0] == name
    oblige(ex, st, 'kernel-definition', ok, text)
    return calls[0] if ok else None


def snrm2_outcomes(ex, outs):
    for o in outs:
        st, a = o.st, o.st.ghost['args']
        if o.kind != 'return':
            continue
        c = one_call(ex, st, 'cvxopt.misc.sdot',
                     'snrm2 makes exactly one library call, misc.sdot')
        if c is None:
            continue
        g = z3.And(z3.BoolVal(same(ex, st, argval(c, 0, 'x'), a['x']) is
                              True),
                   z3.BoolVal(same(ex, st, argval(c, 1, 'y'), a['x']) is
                              True),
                   z3.BoolVal(same(ex, st, argval(c, 2, 'dims'), a['dims'])
                              is True),
                   same(ex, st, argval(c, 3, 'mnl', 0), a['mnl']))
        oblige(ex, st, 'kernel-definition', g,
               'snrm2 calls sdot(x, x, dims, mnl)', c[3])
        sq = [c2 for c2 in st.ghost['log_calls'] if c2[0] == 'math.sqrt']
        ok = (len(sq) == 1 and isinstance(o.val, R) and isinstance(
            sq[0][1][0], R) and 'sdot' in str(sq[0][1][0].t) and
            'sqrt' in str(o.val.t))
        oblige(ex, st, 'kernel-definition', ok,
               'snrm2 returns math.sqrt of the value of that call')
    return {'paths': len(outs)}


def jdot_outcomes(ex, outs):
    seen_err = False
    for o in outs:
        st, a = o.st, o.st.ghost['args']
        if o.kind == 'raise':
            seen_err = seen_err or o.val[0] == 'ValueError'
            oblige(ex, st, 'kernel-definition',
                   o.val[0] == 'ValueError' and a['n'] is None,
                   'jdot raises only ValueError, only when n is None (the '
                   'lengths differ)')
            continue
        c = one_call(ex, st, 'cvxopt.blas.dot',
                     'jdot makes exactly one library call, blas.dot')
        if c is None:
            continue
        nn = a['n'].t if a['n'] is not None else None
        conj = [z3.BoolVal(same(ex, st, argval(c, 0, 'x'), a['x']) is True),
                z3.BoolVal(same(ex, st, argval(c, 1, 'y'), a['y']) is True),
                same(ex, st, c[2].get('offsetx'), I(a['offsetx'].t + 1)),
                same(ex, st, c[2].get('offsety'), I(a['offsety'].t + 1))]
        if nn is not None:
            conj.append(same(ex, st, c[2].get('n'), I(nn - 1)))
        else:
            xo = st.heap[a['x'].oid].f
            ln = CS.L.mul(ex, st, xo['nrows'], xo['ncols'])
            lt = ln.t if isinstance(ln, I) else z3.IntVal(ln)
            conj.append(same(ex, st, c[2].get('n'), I(lt - 1)))
        conj = [z3.BoolVal(x) if isinstance(x, bool) else x for x in conj]
        oblige(ex, st, 'kernel-definition', z3.And(conj),
               'jdot calls blas.dot(x, y, n = n-1, offsetx = offsetx+1, '
               'offsety = offsety+1)', c[3])
        rx = [v for i_, v in reads_of(st, a['x'], None) if ex.check(
            st.pc, [i_ != a['offsetx'].t]) == z3.unsat]
        ry = [v for i_, v in reads_of(st, a['y'], None) if ex.check(
            st.pc, [i_ != a['offsety'].t]) == z3.unsat]
        dsym = [s_ for s_ in (str(o.val.t) if isinstance(o.val, R) else ''
                              ).split() if 'dot!' in s_]
        ok = False
        if isinstance(o.val, R) and len(rx) == 1 and len(ry) == 1:
            fm = z3.Function('fmul', z3.RealSort(), z3.RealSort(),
                             z3.RealSort())
            t = o.val.t
            # value == fmul(x[ox], y[oy]) - <result of the dot call>
            if t.decl().kind() == z3.Z3_OP_SUB and t.num_args() == 2:
                ok = z3.eq(t.arg(0), fm(rx[0], ry[0])) and 'dot!' in str(
                    t.arg(1))
        oblige(ex, st, 'kernel-definition', ok,
               'jdot returns x[offsetx]*y[offsety] minus the value of that '
               'call')
    if any(o.st.ghost['args']['n'] is None for o in outs):
        oblige(ex, outs[0].st, 'covered', seen_err,
               'the ValueError path of jdot is reached')
    return {'paths': len(outs)}


def jnrm2_outcomes(ex, outs):
    for o in outs:
        st, a = o.st, o.st.ghost['args']
        if o.kind != 'return':
            continue
        c = one_call(ex, st, 'cvxopt.blas.nrm2',
                     'jnrm2 makes exactly one BLAS call, blas.nrm2')
        if c is None:
            continue
        conj = [z3.BoolVal(same(ex, st, argval(c, 0, 'x'), a['x']) is True),
                same(ex, st, c[2].get('offset'), I(a['offset'].t + 1))]
        if a['n'] is not None:
            conj.append(same(ex, st, c[2].get('n'), I(a['n'].t - 1)))
        conj = [z3.BoolVal(x) if isinstance(x, bool) else x for x in conj]
        oblige(ex, st, 'kernel-definition', z3.And(conj),
               'jnrm2 calls blas.nrm2(x, n = n-1, offset = offset+1)', c[3])
        rx = [v for i_, v in reads_of(st, a['x'], None) if ex.check(
            st.pc, [i_ != a['offset'].t]) == z3.unsat]
        sq = [c2 for c2 in st.ghost['log_calls'] if c2[0] == 'math.sqrt']
        ok = False
        if len(sq) == 2 and len(rx) == 2 and isinstance(o.val, R):
            args = [c2[1][0].t for c2 in sq if isinstance(c2[1][0], R)]
            nr = [t_ for t_ in args]
            if len(nr) == 2:
                a0, a1 = nr
                k0, k1 = a0.decl().kind(), a1.decl().kind()
                ok = ({k0, k1} == {z3.Z3_OP_SUB, z3.Z3_OP_ADD} and
                      all(any(z3.eq(t_.arg(0), r_) for r_ in rx)
                          for t_ in nr) and
                      z3.eq(a0.arg(1), a1.arg(1)) and 'nrm2!' in
                      str(a0.arg(1)) and o.val.t.decl().name() == 'fmul')
        oblige(ex, st, 'kernel-definition', ok,
               'jnrm2 returns sqrt(x[offset] - a) * sqrt(x[offset] + a) '
               'with a the value of that call')
    return {'paths': len(outs)}


FUNCS = {
    'sgemv': {'setup': sgemv_setup,
              'scenarios': {'default-n': {}, 'given-n': {'n': True},
                            'sparse-A': {'sparse': True}},
              'on_outcomes': sgemv_outcomes},
    'snrm2': {'setup': vec_setup, 'scenarios': {'any': {}},
              'on_outcomes': snrm2_outcomes},
    'jdot': {'setup': vec_setup,
             'scenarios': {'given-n': {}, 'default-n': {'n': False}},
             'on_outcomes': jdot_outcomes},
    'jnrm2': {'setup': vec_setup,
              'scenarios': {'given-n': {}, 'default-n': {'n': False}},
              'on_outcomes': jnrm2_outcomes},
}


# ------------------------------------------------------------------- ssqr
# x := y o y (the 's' parts diagonal):  copy(y, x); componentwise square of
# the first mnl + l entries (tbmv with the diagonal band y); for every 'q'
# block k at B_k = mnl + l + sum_{j<k} q_j:  x[B_k] = ||y_k||^2,
# x[B_k+1 : B_k+q_k] *= 2 y[B_k];  componentwise square of the sum(s)
# diagonal entries at B_end.  The obligations are generated at the calls
# (the loop body's states are summarised by the invariant rule).
def _ssqr_terms(ex, st, fid):
    from contracts.py.extern_cvxopt import psum_fn
    a = st.ghost['args']
    d = st.heap[a['dims'].oid].f['items']
    Sq = psum_fn(ex, st, d['q'])
    return a, d, Sq


def ssqr_setup(sc):
    def setup(ex, st, fid, fn):
        fr = common(ex, st, fid)
        fr['x'] = CS.input_matrix(ex, st, 'x', ncols=1)
        fr['y'] = CS.input_matrix(ex, st, 'y', ncols=1)
        fr['dims'] = CS.input_dims(ex, st)
        fr['mnl'] = I(z3.Int('mnl'))
        st.ghost['args'] = dict(fr)
        st.ghost['ssqr'] = fid
        st.ghost['seq'] = ()
    return setup


def ssqr_loop_matcher(ex, s):
    return ex.fname == 'ssqr' and isinstance(s, ast.For) and \
        "dims['q']" in ast.unparse(s.iter)


class SsqrInv:
    def __call__(self, ex, st, fid, k, it):
        a, d, Sq = _ssqr_terms(ex, st, fid)
        ind = st.frames[fid].get('ind')
        t = ind.t if isinstance(ind, I) else (z3.IntVal(ind) if isinstance(
            ind, int) else None)
        if t is None:
            return [('ind is an integer', z3.BoolVal(False))]
        kk = k if z3.is_expr(k) else z3.IntVal(k)
        return [('ind = mnl + l + sum of the first k entries of q',
                 t == a['mnl'].t + d['l'].t + Sq(kk))]


L.loop_invariants.setdefault('*', []).append((ssqr_loop_matcher, SsqrInv()))

_prev2 = L.hooks.get('pre_call')


def ssqr_pre_call(ex, st, name, args, kwargs, n):
    if _prev2:
        _prev2(ex, st, name, args, kwargs, n)
    fid = st.ghost.get('ssqr')
    if fid is None or getattr(ex, 'fname', '') != 'ssqr' or \
            name.startswith('builtins.') or name == 'math.sqrt':
        return
    a, d, Sq = _ssqr_terms(ex, st, fid)
    short = name.split('.')[-1]
    seq = st.ghost.get('seq', ())
    st.ghost['seq'] = seq + (short,)
    ks = [v for k_, v in st.ghost.items() if isinstance(k_, tuple) and k_ and
          k_[0] == 'loopidx']
    c = (name, list(args), dict(kwargs), n.lineno)
    base0 = a['mnl'].t + d['l'].t

    def ob(goal, text):
        if isinstance(goal, bool):
            goal = z3.BoolVal(goal)
        ex.oblige(st, 'kernel-definition', goal, n, text,
                  extra={'prop': 'C08'})

    def is_(v, w):
        r = same(ex, st, v, w)
        return z3.BoolVal(r) if isinstance(r, bool) else r
    if short == 'copy':
        ob(z3.And(is_(argval(c, 0, 'x'), a['y']),
                  is_(argval(c, 1, 'y'), a['x'])) if len(seq) == 0 else
           False, 'ssqr starts with blas.copy(y, x)')
    elif short == 'tbmv' and 'tbmv' not in seq:
        ob(z3.And(is_(argval(c, 0, 'A'), a['y']),
                  is_(argval(c, 1, 'x'), a['x']),
                  is_(kwargs.get('n'), I(base0)), is_(kwargs.get('k'), 0),
                  is_(kwargs.get('ldA'), 1)),
           'ssqr squares the first mnl + l entries: blas.tbmv(y, x, n = mnl '
           '+ l, k = 0, ldA = 1)')
    elif short == 'nrm2':
        if not ks:
            ob(False, 'blas.nrm2 is called inside the loop over q')
            return
        B = base0 + Sq(ks[-1])
        qk = st.heap[d['q'].oid].f['elem'][1](ks[-1])
        ob(z3.And(is_(argval(c, 0, 'x'), a['y']),
                  is_(kwargs.get('offset'), I(B)),
                  is_(kwargs.get('n'), I(qk))),
           'for q block k: blas.nrm2(y, offset = B_k, n = q_k), B_k = mnl + '
           'l + q_0 + ... + q_(k-1)')
    elif short == 'scal':
        if not ks:
            ob(False, 'blas.scal is called inside the loop over q')
            return
        B = base0 + Sq(ks[-1])
        qk = st.heap[d['q'].oid].f['elem'][1](ks[-1])
        yb = [v for i_, v in reads_of(st, a['y'], None) if ex.check(
            st.pc, [i_ != B]) == z3.unsat]
        al = argval(c, 0, 'alpha')
        fm = z3.Function('fmul', z3.RealSort(), z3.RealSort(),
                         z3.RealSort())
        okal = isinstance(al, R) and len(yb) >= 1 and any(
            z3.eq(al.t, fm(z3.RealVal(2), v)) or ex.check(
                st.pc, [al.t != 2 * v]) == z3.unsat for v in yb)
        ob(z3.And(is_(argval(c, 1, 'x'), a['x']),
                  is_(kwargs.get('n'), I(qk - 1)),
                  is_(kwargs.get('offset'), I(B + 1)), z3.BoolVal(okal)),
           'for q block k: blas.scal(2*y[B_k], x, n = q_k - 1, offset = B_k '
           '+ 1)')
    elif short == 'tbmv':
        ql = st.heap[d['q'].oid].f['len'].t
        Bend = base0 + Sq(ql)
        from contracts.py.extern_cvxopt import psum_fn
        Ss = psum_fn(ex, st, d['s'])
        sl = st.heap[d['s'].oid].f['len'].t
        ob(z3.And(is_(argval(c, 0, 'A'), a['y']),
                  is_(argval(c, 1, 'x'), a['x']),
                  is_(kwargs.get('n'), I(Ss(sl))), is_(kwargs.get('k'), 0),
                  is_(kwargs.get('ldA'), 1),
                  is_(kwargs.get('offsetA'), I(Bend)),
                  is_(kwargs.get('offsetx'), I(Bend))),
           'ssqr squares the sum(s) diagonal entries behind the q blocks: '
           'blas.tbmv(y, x, n = sum(s), k = 0, ldA = 1, offsetA = offsetx = '
           'mnl + l + sum(q))')
    else:
        ob(False, 'ssqr calls only copy, tbmv, nrm2, scal (%s)' % short)


L.hooks['pre_call'] = ssqr_pre_call
_prev_w = L.hooks.get('matrix_setitem')


def ssqr_setitem(ex, st, base, idx, v, s):
    if _prev_w:
        _prev_w(ex, st, base, idx, v, s)
    fid = st.ghost.get('ssqr')
    if fid is None or getattr(ex, 'fname', '') != 'ssqr':
        return
    a, d, Sq = _ssqr_terms(ex, st, fid)
    ks = [v_ for k_, v_ in st.ghost.items() if isinstance(k_, tuple) and k_
          and k_[0] == 'loopidx']
    ok = z3.BoolVal(False)
    if ks and isinstance(base, Ref) and base.oid == a['x'].oid and \
            isinstance(idx, I) and isinstance(v, R):
        B = a['mnl'].t + d['l'].t + Sq(ks[-1])
        ok = z3.And(idx.t == B, z3.BoolVal('nrm2!' in str(v.t)))
    ex.oblige(st, 'kernel-definition', ok, s,
              'for q block k: x[B_k] = blas.nrm2(...)**2 is the only element '
              'store of ssqr', extra={'prop': 'C08'})


L.hooks['matrix_setitem'] = ssqr_setitem


def ssqr_outcomes(ex, outs):
    nret = 0
    for o in outs:
        if o.kind != 'return':
            oblige(ex, o.st, 'kernel-definition', False,
                   'ssqr returns normally (%s)' % (o.val,))
            continue
        nret += 1
        seq = o.st.ghost.get('seq', ())
        oblige(ex, o.st, 'kernel-definition',
               seq[:2] == ('copy', 'tbmv') and seq[-1:] == ('tbmv',) and
               seq.count('tbmv') == 2 and seq.count('copy') == 1,
               'ssqr makes the calls copy, tbmv, [loop over q], tbmv on the '
               'path outside the loop (%s)' % (seq,))
    fn = ex.find_function('ssqr')
    loops = [s for s in fn.body if isinstance(s, ast.For)]
    body_calls = [ast.unparse(x.func) for s in loops for x in ast.walk(s)
                  if isinstance(x, ast.Call)]
    oblige(ex, outs[0].st, 'kernel-definition',
           len(loops) == 1 and body_calls.count('blas.nrm2') == 1 and
           body_calls.count('blas.scal') == 1,
           'the loop over q contains one blas.nrm2 and one blas.scal call')
    oblige(ex, outs[0].st, 'covered', nret >= 1, 'ssqr returns')
    return {'paths': len(outs)}


FUNCS['ssqr'] = {'setup': ssqr_setup, 'scenarios': {'any': {}},
                 'on_outcomes': ssqr_outcomes}
