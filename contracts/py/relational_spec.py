"""C11 / C12: the one-line operators of `variable` and the comparison
operators of `variable` and `_function`.

  variable:  v + a, a + v, v - a, a - v, v * a, a * v, v / a, v[key]  are
             (+v).__op__(a): the variable is first turned into the affine
             function +v (a new object) and the operator of _function -- under
             contract in function_spec / function_index_spec -- does the work;
             the in-place forms are refused with NotImplementedError.
  f <= g  is the constraint  f - g <= 0      (constraint(f - g, '<'))
  f >= g  is the constraint  g - f <= 0      (constraint(g - f, '<'))
  f == g  is the constraint  f - g  = 0      (constraint(f - g, '='))
  for f a variable or a function; < and > are refused (NotImplementedError).
The direction of the difference and the type character are what C12's
"the variable values satisfy every original constraint" rests on.
Each method body is executed by pyvc with abstract operands; the result must
be exactly the documented call.
"""
import ast, z3
from engine.pyvc import driver, core
from engine.pyvc.core import (Dyn, Ref, R, B, I, Ext, Unknown, Unsupported,
                              NeedFork, PyRaise, const_of, Outcome)
from contracts.py.extern_cvxopt import LIB as L

# texts of obligations that were refuted because the code is not of the
# documented FORM (the goal was the constant false: no counter-model), as
# opposed to a condition that z3 refuted with values
FORM_REFUTED = set()


class Opd:
    """an operand (self or other)"""
    abs_object = True

    def __init__(self, name):
        self.name = name

    def abs_unop(self, ex, st, op, n):
        if isinstance(op, ast.UAdd):
            return Pos(self)
        if isinstance(op, ast.USub):
            return Neg(self)
        raise Unsupported('unary operation')

    def abs_binop(self, ex, st, op, b, n):
        if isinstance(op, ast.Sub):
            return Diff(self, b)
        raise Unsupported('operation on an operand')

    def abs_rbinop(self, ex, st, op, a, n):
        if isinstance(op, ast.Sub):
            return Diff(a, self)
        raise Unsupported('operation on an operand')

    def abs_getattr(self, ex, st, attr, n):
        return core.NOTFOUND


class Pos:
    abs_object = True

    def __init__(self, of):
        self.of = of

    def abs_method(self, ex, st, name, args, kwargs, n):
        return CallRes(self, name, tuple(args), dict(kwargs))

    def abs_getattr(self, ex, st, attr, n):
        return core.NOTFOUND


class Neg(Pos):
    pass


class Diff:
    abs_object = True

    def __init__(self, a, b):
        self.a, self.b = a, b


class CallRes:
    abs_object = True

    def __init__(self, recv, name, args, kwargs):
        self.recv, self.name, self.args, self.kwargs = recv, name, args, kwargs


class ConRes:
    abs_object = True

    def __init__(self, f, typ):
        self.f, self.typ = f, typ


DELEG = ['__add__', '__radd__', '__sub__', '__rsub__', '__mul__',
         '__rmul__', '__truediv__', '__getitem__']
REFUSED = {'variable': ['__iadd__', '__isub__', '__imul__', '__itruediv__',
                        '__lt__', '__gt__'],
           '_function': ['__lt__', '__gt__']}
REL = {'__le__': ('self', 'other', '<'), '__ge__': ('other', 'self', '<'),
       '__eq__': ('self', 'other', '=')}


def obligations():
    tree, src = driver.load_module('modeling.py')
    obs = []

    def add(fn, oid, kind, status, text, line=0, detail=None):
        if status == 'refuted':
            FORM_REFUTED.add(text)      # decided by the shape of the result
        obs.append({'id': 'modeling.py:%s:%s:%s' % (fn, kind, oid),
                    'kind': kind, 'status': status, 'text': text,
                    'line': line, 'model': None, 'detail': detail,
                    'by': ['pyvc'] if status == 'proved' else []})
    saved = L.ext.get('cvxopt.modeling.constraint')

    def m_constraint(ex_, st, args, kwargs, n):
        if len(args) == 2 and not kwargs:
            return ConRes(args[0], const_of(args[1])[1])
        raise Unsupported('constraint(%r)' % (args,))

    def run(cls, meth):
        ex = core.Executor(tree, 'cvxopt.modeling', L, {'unroll': 8})
        me, other = Opd('self'), Opd('other')

        def setup(ex_, st, fid, f_):
            L.ext['cvxopt.modeling.constraint'] = m_constraint
            L.pure.add('cvxopt.modeling.constraint')
            fr = st.frames[fid]
            fr['self'] = me
            for a in f_.args.args[1:]:
                fr[a.arg] = other
            fr['constraint'] = Ext('cvxopt.modeling.constraint')
            st.ghost['frame_check'] = False
        ex.find_function('%s.%s' % (cls, meth))
        return me, other, ex.run_function('%s.%s' % (cls, meth), setup)
    try:
        for cls in ('variable', '_function'):
            fnname = lambda m_: '%s.%s' % (cls, m_)
            if cls == 'variable':
                for meth in DELEG:
                    try:
                        me, other, outs = run(cls, meth)
                    except (Unsupported, KeyError) as e:
                        add(fnname(meth), 'supported', 'operator-delegates',
                            'undecided', '%s is inside the supported subset'
                            % fnname(meth), detail=repr(e))
                        continue
                    ok = len(outs) == 1 and outs[0].kind == 'return' and \
                        isinstance(outs[0].val, CallRes) and type(
                            outs[0].val.recv) is Pos and \
                        outs[0].val.recv.of is me and \
                        outs[0].val.name == meth and \
                        outs[0].val.args == (other,) and \
                        not outs[0].val.kwargs
                    add(fnname(meth), 'call', 'operator-delegates',
                        'proved' if ok else 'refuted',
                        'variable.%s(other) is (+self).%s(other): the same '
                        'operator of the affine function +self, with the '
                        'same operand' % (meth, meth))
            for meth in REFUSED[cls]:
                try:
                    me, other, outs = run(cls, meth)
                except (Unsupported, KeyError) as e:
                    add(fnname(meth), 'supported', 'operator-refuses',
                        'undecided', '%s is inside the supported subset' %
                        fnname(meth), detail=repr(e))
                    continue
                ok = len(outs) >= 1 and all(
                    o.kind == 'raise' and o.val[0] == 'NotImplementedError'
                    for o in outs)
                add(fnname(meth), 'refuses', 'operator-refuses',
                    'proved' if ok else 'refuted',
                    '%s.%s is refused with NotImplementedError' % (cls, meth))
            for meth, (a, b, typ) in REL.items():
                try:
                    me, other, outs = run(cls, meth)
                except (Unsupported, KeyError) as e:
                    add(fnname(meth), 'supported', 'relation-direction',
                        'undecided', '%s is inside the supported subset' %
                        fnname(meth), detail=repr(e))
                    continue
                opd = {'self': me, 'other': other}
                ok = len(outs) == 1 and outs[0].kind == 'return' and \
                    isinstance(outs[0].val, ConRes) and isinstance(
                        outs[0].val.f, Diff) and outs[0].val.f.a is opd[a] \
                    and outs[0].val.f.b is opd[b] and outs[0].val.typ == typ
                add(fnname(meth), 'constraint', 'relation-direction',
                    'proved' if ok else 'refuted',
                    "%s.%s(other) is constraint(%s - %s, '%s'): the "
                    'constraint %s - %s %s 0' % (cls, meth, a, b, typ, a, b,
                                                 '<=' if typ == '<' else '='))
    finally:
        if saved is None:
            L.ext.pop('cvxopt.modeling.constraint', None)
        else:
            L.ext['cvxopt.modeling.constraint'] = saved
    return obs


# ------------------------------------------------- constraint.__init__
# constraint(f, ctype): accepted iff ctype is '=' or '<', f is a _function,
# and f is affine for '=' resp. convex for '<' ("a function accepted as
# convex (resp. affine) really is"); TypeError otherwise.  The function is
# stored as it is and the multiplier is a new variable of the constraint's
# length.
class CF:
    abs_object = True

    def __init__(self):
        self.isfn = z3.Bool('f is a _function')
        self.affine = z3.Bool('f is affine')
        self.convex = z3.Bool('f is convex')
        self.ln = z3.Int('len(f)')

    def abs_method(self, ex, st, name, args, kwargs, n):
        if name in ('_isaffine', '_isconvex', '_isconcave'):
            d = ex.decide(st, self.isfn)
            if d is None:
                raise NeedFork(self.isfn)
            if not d:
                raise PyRaise('AttributeError', name)
            return B({'_isaffine': self.affine, '_isconvex': self.convex,
                      '_isconcave': z3.Bool('f is concave')}[name])
        raise Unsupported('method %s of f' % name)

    def abs_getattr(self, ex, st, attr, n):
        return core.NOTFOUND


class CFType:
    abs_object = True

    def __init__(self, f):
        self.f = f

    def abs_is(self, ex, st, o):
        if isinstance(o, Ext) and o.name == 'cvxopt.modeling._function':
            return self.f.isfn
        raise Unsupported('type test of f')

    abs_eq = abs_is


class CSelf:
    abs_object = True

    def abs_getattr(self, ex, st, attr, n):
        return st.ghost.get('cattrs', {}).get(attr, core.NOTFOUND)


def constraint_init_obligations(timeout_ms=10000):
    tree, src = driver.load_module('modeling.py')
    obs = []

    def add(oid, kind, status, text, line=0, detail=None):
        obs.append({'id': 'modeling.py:constraint.__init__:%s:%s' % (kind,
                                                                     oid),
                    'kind': kind, 'status': status, 'text': text,
                    'line': line, 'model': None, 'detail': detail,
                    'by': ['z3'] if status == 'proved' else []})
    saved = {k_: L.ext.get(k_) for k_ in ('builtins.type', 'builtins.len',
                                          'cvxopt.modeling.variable')}
    saved_setattr = L.setattr
    type0, len0 = saved['builtins.type'], saved['builtins.len']

    def setattr_(ex, st, base, attr, v, s):
        if isinstance(base, CSelf):
            st.ghost['cattrs'] = dict(st.ghost.get('cattrs', {}))
            st.ghost['cattrs'][attr] = v
            return
        return saved_setattr(ex, st, base, attr, v, s)

    def b_type(ex_, st, args, kwargs, n):
        if len(args) == 1 and isinstance(args[0], CF):
            return CFType(args[0])
        return type0(ex_, st, args, kwargs, n)

    def b_len(ex_, st, args, kwargs, n):
        if isinstance(args[0], CSelf):
            f = st.ghost.get('cattrs', {}).get('_f')
            if isinstance(f, CF):
                return I(f.ln)
            raise PyRaise('AttributeError', '_f')
        if isinstance(args[0], CF):
            return I(args[0].ln)
        return len0(ex_, st, args, kwargs, n)

    def m_variable(ex_, st, args, kwargs, n):
        return ('new variable', args[0] if args else None)
    sink = []
    try:
        for ct in ('=', '<', 'other'):
            ex = core.Executor(tree, 'cvxopt.modeling', L, {'unroll': 8})
            f = CF()

            def setup(ex_, st, fid, f_, ct=ct, f=f):
                L.ext.update({'builtins.type': b_type, 'builtins.len': b_len,
                              'cvxopt.modeling.variable': m_variable})
                L.setattr = setattr_
                fr = st.frames[fid]
                fr['self'] = CSelf()
                fr['f'] = f
                fr['ctype'] = ct if ct != 'other' else '>'
                fr['name'] = ''
                fr['_function'] = Ext('cvxopt.modeling._function')
                fr['variable'] = Ext('cvxopt.modeling.variable')
                st.pc.append(f.ln >= 1)
                st.ghost['frame_check'] = False
            ex.find_function('constraint.__init__')
            try:
                outs = ex.run_function('constraint.__init__', setup)
            except Unsupported as e:
                add('supported', 'constraint-accepts', 'undecided',
                    'constraint.__init__ is inside the supported subset',
                    detail=str(e))
                return obs
            good = z3.And(z3.BoolVal(ct in ('=', '<')), f.isfn,
                          f.affine if ct == '=' else f.convex)
            for o in outs:
                if o.kind == 'raise':
                    sink.append((ex, 'constraint-refuses', list(o.st.pc),
                                 z3.And(z3.BoolVal(o.val[0] == 'TypeError'),
                                        z3.Not(good)),
                                 "constraint(f, ctype) is refused only with "
                                 "TypeError, for a ctype other than '=' / "
                                 "'<', an f that is not a function, or an f "
                                 "that is not affine ('=') resp. convex "
                                 "('<') (%s)" % o.val[0],
                                 o.val[2] if len(o.val) > 2 else 0))
                    continue
                ca = o.st.ghost.get('cattrs', {})
                mul = ca.get('multiplier')
                okm = isinstance(mul, tuple) and mul[0] == 'new variable' \
                    and isinstance(mul[1], I)
                sink.append((ex, 'constraint-accepts', list(o.st.pc), z3.And(
                    good, z3.BoolVal(ca.get('_f') is f and ca.get(
                        '_type') == ct and okm),
                    mul[1].t == f.ln if okm else z3.BoolVal(False)),
                    "constraint(f, ctype) is accepted only for a function "
                    "that is affine ('=') resp. convex ('<'); it stores f "
                    "and the type, and its multiplier is a new variable of "
                    "length len(f)", 0))
    finally:
        for k_, v_ in saved.items():
            if v_ is None:
                L.ext.pop(k_, None)
            else:
                L.ext[k_] = v_
        L.setattr = saved_setattr
    seen = {}
    rank = {'proved': 0, 'undecided': 1, 'refuted': 2}
    for ex, kind, pc, goal, text, line in sink:
        r = ex.check(pc, [z3.Not(goal)], timeout=timeout_ms)
        st_ = 'proved' if r == z3.unsat else ('refuted' if r == z3.sat
                                              else 'undecided')
        if st_ == 'refuted' and z3.is_false(z3.simplify(goal)):
            FORM_REFUTED.add(text)
        key = (kind, text)
        if key not in seen or rank[st_] > rank[seen[key][0]]:
            seen[key] = (st_, line)
    for i_, ((kind, text), (st_, line)) in enumerate(sorted(seen.items())):
        add('%s#%d' % (kind, i_), kind, st_, text, line)
    return obs


# ------------------------------------------------------------- dot(x, y)
# Documented (modeling.rst): "If v is a variable or affine function and u is
# a 'd' matrix of size (len(v), 1), then dot(u, v) and dot(v, u) are
# equivalent to u.trans() * v.  If u and v are dense matrices, then dot is
# equivalent to blas.dot."  Property C11: combinations whose dimensions do
# not match are refused with an exception instead of producing a function.
# Contract: dot returns blas.dot(x, y) iff both are dense matrices;
# u.trans() * v iff u is a dense matrix of size (len(v), 1) and v a variable
# or an affine function (either order); TypeError otherwise.
class DArg:
    abs_object = True
    KINDS = ('dmatrix', 'variable', 'function', 'other')

    def __init__(self, tag):
        self.tag = tag
        self.kind = z3.Int('kind of ' + tag)
        self.rows, self.cols = z3.Int('rows of ' + tag), z3.Int(
            'columns of ' + tag)
        self.ln = z3.Int('len(' + tag + ')')
        self.affine = z3.Bool(tag + ' is affine')

    def is_(self, k):
        return self.kind == self.KINDS.index(k)

    def abs_getattr(self, ex, st, attr, n):
        if attr == 'size':
            return (I(self.rows), I(self.cols))
        return core.NOTFOUND

    def abs_method(self, ex, st, name, args, kwargs, n):
        if name == '_isaffine':
            d = ex.decide(st, self.is_('function'))
            if d is None:
                raise NeedFork(self.is_('function'))
            if not d:
                raise PyRaise('AttributeError', name)
            return B(self.affine)
        if name == 'trans' and not args:
            return DTrans(self)
        raise Unsupported('method %s of an argument of dot' % name)


class DTrans:
    abs_object = True

    def __init__(self, of):
        self.of = of

    def abs_binop(self, ex, st, op, b, n):
        if isinstance(op, ast.Mult) and isinstance(b, DArg):
            return DProd(self.of, b)
        raise Unsupported('operation on a transposed matrix')


class DProd:
    abs_object = True

    def __init__(self, u, v):
        self.u, self.v = u, v


class DType:
    abs_object = True

    def __init__(self, a):
        self.a = a

    def abs_is(self, ex, st, o):
        if isinstance(o, Ext) and o.name == 'cvxopt.modeling.variable':
            return self.a.is_('variable')
        if isinstance(o, Ext) and o.name == 'cvxopt.modeling._function':
            return self.a.is_('function')
        raise Unsupported('type test of an argument of dot')

    abs_eq = abs_is


def dot_obligations(timeout_ms=10000):
    tree, src = driver.load_module('modeling.py')
    obs, sink = [], []

    def add(oid, kind, status, text, line=0, detail=None):
        obs.append({'id': 'modeling.py:dot:%s:%s' % (kind, oid),
                    'kind': kind, 'status': status, 'text': text,
                    'line': line, 'model': None, 'detail': detail,
                    'by': ['z3'] if status == 'proved' else []})
    names = ('builtins.type', 'builtins.len', 'cvxopt.modeling._isdmatrix',
             'cvxopt.blas.dot', 'cvxopt.modeling.blas.dot')
    saved = {k_: L.ext.get(k_) for k_ in names}
    type0, len0 = saved['builtins.type'], saved['builtins.len']

    def b_type(ex_, st, args, kwargs, n):
        if len(args) == 1 and isinstance(args[0], DArg):
            return DType(args[0])
        return type0(ex_, st, args, kwargs, n)

    def b_len(ex_, st, args, kwargs, n):
        if isinstance(args[0], DArg):
            return I(args[0].ln)
        return len0(ex_, st, args, kwargs, n)

    def isd(ex_, st, args, kwargs, n):
        if isinstance(args[0], DArg):
            return B(args[0].is_('dmatrix'))
        return False

    def blasdot(ex_, st, args, kwargs, n):
        return ('blas.dot', tuple(args))
    ex = core.Executor(tree, 'cvxopt.modeling', L, {'unroll': 8})
    x, y = DArg('x'), DArg('y')

    def setup(ex_, st, fid, f_):
        L.ext.update({'builtins.type': b_type, 'builtins.len': b_len,
                      'cvxopt.modeling._isdmatrix': isd,
                      'cvxopt.blas.dot': blasdot,
                      'cvxopt.modeling.blas.dot': blasdot})
        fr = st.frames[fid]
        fr['x'], fr['y'] = x, y
        fr['blas'] = Ext('cvxopt.blas')
        fr['variable'] = Ext('cvxopt.modeling.variable')
        fr['_function'] = Ext('cvxopt.modeling._function')
        for a in (x, y):
            st.pc += [a.kind >= 0, a.kind <= 3, a.rows >= 1, a.cols >= 1,
                      a.ln >= 1]
        st.ghost['frame_check'] = False
    try:
        ex.find_function('dot')
        try:
            outs = ex.run_function('dot', setup)
        except Unsupported as e:
            add('supported', 'dot-accepts', 'undecided', 'dot is inside the '
                'supported subset', detail=str(e))
            return obs
    finally:
        for k_, v_ in saved.items():
            if v_ is None:
                L.ext.pop(k_, None)
            else:
                L.ext[k_] = v_

    def fits(u, v):
        return z3.And(u.is_('dmatrix'), z3.Or(v.is_('variable'), z3.And(
            v.is_('function'), v.affine)), u.rows == v.ln, u.cols == 1)
    both = z3.And(x.is_('dmatrix'), y.is_('dmatrix'))
    nret = 0
    for o in outs:
        pc = list(o.st.pc)
        if o.kind == 'raise':
            sink.append(('dot-refuses', pc, z3.And(
                z3.BoolVal(o.val[0] == 'TypeError'),
                z3.Not(z3.Or(both, fits(x, y), fits(y, x)))),
                'dot(x, y) is refused only with TypeError, when it is neither '
                'the inner product of two dense matrices nor that of a dense '
                'column matrix of size (len(v), 1) with a variable or affine '
                'function v (%s)' % o.val[0],
                o.val[2] if len(o.val) > 2 else 0))
            continue
        nret += 1
        v = o.val
        if isinstance(v, tuple) and v and v[0] == 'blas.dot':
            sink.append(('dot-accepts', pc, z3.And(both, z3.BoolVal(
                v[1] == (x, y))), 'blas.dot(x, y) is returned only for two '
                'dense matrices', 0))
        elif isinstance(v, DProd):
            sink.append(('dot-accepts', pc, fits(v.u, v.v) if {v.u, v.v} ==
                         {x, y} else z3.BoolVal(False),
                         'u.trans() * v is returned only if u is a dense '
                         'matrix of size (len(v), 1) and v a variable or an '
                         'affine function', 0))
        else:
            sink.append(('dot-accepts', pc, z3.BoolVal(False), 'dot returns '
                         'blas.dot(x, y) or u.trans() * v', 0))
    sink.append(('covered', [], z3.BoolVal(nret >= 3), 'the three ways of '
                 'returning are reached (%d)' % nret, 0))
    seen = {}
    rank = {'proved': 0, 'undecided': 1, 'refuted': 2}
    for kind, pc, goal, text, line in sink:
        r = ex.check(pc, [z3.Not(goal)], timeout=timeout_ms)
        st_ = 'proved' if r == z3.unsat else ('refuted' if r == z3.sat
                                              else 'undecided')
        if st_ == 'refuted' and z3.is_false(z3.simplify(goal)):
            FORM_REFUTED.add(text)
        if kind == 'covered' and st_ != 'proved':
            st_ = 'undecided'
        key = (kind, text)
        if key not in seen or rank[st_] > rank[seen[key][0]]:
            seen[key] = (st_, line)
    for i_, ((kind, text), (st_, line)) in enumerate(sorted(seen.items())):
        add('%s#%d' % (kind, i_), kind, st_, text, line)
    return obs


# ----------------------------------------------------------- op._islp()
# True iff the objective and the functions of all inequalities and all
# equalities are affine (precondition: equalities are affine anyway -- the
# invariant constraint.__init__ establishes; constraint lists of any length: the loops are
# executed for an arbitrary constraint; a constraint that is passed over is
# affine, at exhaustion every constraint -- in particular a witness of
# "some constraint is not affine" -- was passed over).
class LpSeq:
    abs_object = True

    def __init__(self, name, n, aff, wit):
        self.name, self.n, self.aff, self.wit = name, n, aff, wit

    def abs_loop(self, ex, st, s, fid):
        k = z3.Int(ex.fresh('k'))
        b = st.copy()
        b.pc += [k >= 0, k < self.n]
        aff = self.aff

        class F:
            abs_object = True

            def abs_method(s_, ex_, st_, name, args, kwargs, n):
                if name == '_isaffine':
                    return B(aff(k))
                raise Unsupported('method %s' % name)

            def abs_getattr(s_, ex_, st_, attr, n):
                return core.NOTFOUND

        class Cn:
            abs_object = True

            def abs_getattr(s_, ex_, st_, attr, n):
                if attr == '_f':
                    return F()
                return core.NOTFOUND
        ex.assign(b, fid, s.target, Cn(), s)
        outs = []
        for o in ex.exec_block(s.body, b, fid):
            if o.kind in ('fall', 'continue'):
                ex.oblige(o.st, 'islp-value', aff(k), s, '_islp passes '
                          'over a constraint of %s only if its function is '
                          'affine' % self.name, extra={'prop': 'C14'})
                ex.orphans = getattr(ex, 'orphans', [])
                ex.orphans.extend(o.st.obligs)
            elif o.kind == 'break':
                raise Unsupported('break in _islp')
            else:
                outs.append(o)
        e = st.copy()
        e.pc.append(z3.Implies(z3.And(self.wit >= 0, self.wit < self.n),
                               aff(self.wit)))
        outs.append(Outcome('fall', e))
        return outs


def islp_obligations(timeout_ms=10000):
    tree, src = driver.load_module('modeling.py')
    obs = []
    ex = core.Executor(tree, 'cvxopt.modeling', L, {'unroll': 8})
    oaff = z3.Bool('the objective is affine')
    ni, ne = z3.Int('number of inequalities'), z3.Int('number of equalities')
    ai = z3.Function('inequality is affine', z3.IntSort(), z3.BoolSort())
    ae = z3.Function('equality is affine', z3.IntSort(), z3.BoolSort())
    wi, we = z3.Int('witness inequality'), z3.Int('witness equality')
    allaff = z3.Bool('every constraint function is affine')

    class Obj_:
        abs_object = True

        def abs_method(s_, ex_, st_, name, args, kwargs, n):
            if name == '_isaffine':
                return B(oaff)
            raise Unsupported('method %s' % name)

        def abs_getattr(s_, ex_, st_, attr, n):
            return core.NOTFOUND

    class Me:
        abs_object = True

        def abs_getattr(s_, ex_, st_, attr, n):
            return {'objective': Obj_(), '_inequalities': LpSeq(
                '_inequalities', ni, ai, wi), '_equalities': LpSeq(
                    '_equalities', ne, ae, we)}.get(attr, core.NOTFOUND)

    def setup(ex_, st, fid, f_):
        st.frames[fid]['self'] = Me()
        # class invariant (constraint.__init__, contract above): the
        # function of an equality constraint is affine
        q_ = z3.Int('q_eq')
        st.pc.append(z3.ForAll([q_], ae(q_)))
        # allaff is false iff there is a witness in one of the lists
        st.pc += [ni >= 0, ne >= 0, z3.Implies(z3.Not(allaff), z3.Or(
            z3.And(wi >= 0, wi < ni, z3.Not(ai(wi))),
            z3.And(we >= 0, we < ne, z3.Not(ae(we))))),
            z3.Implies(allaff, z3.And(z3.Or(wi < 0, wi >= ni, ai(wi)),
                                      z3.Or(we < 0, we >= ne, ae(we))))]
        st.ghost['frame_check'] = False

    def on_outcomes(ex_, outs):
        class N:
            lineno = 0
            col_offset = 0
        for o in outs:
            if o.kind != 'return' or not isinstance(o.val, bool):
                ex_.oblige(o.st, 'islp-value', z3.BoolVal(False), N(),
                           '_islp returns True or False', extra={'prop':
                                                                  'C14'})
                continue
            if o.val:
                ex_.oblige(o.st, 'islp-value', z3.And(oaff, allaff), N(),
                           '_islp returns True only if the objective and '
                           'every constraint function is affine',
                           extra={'prop': 'C14'})
            else:
                # False is returned from a test that failed on this path
                ex_.oblige(o.st, 'islp-value', z3.Not(z3.And(
                    oaff, z3.ForAll([z3.Int('q')], z3.And(
                        z3.Implies(z3.And(z3.Int('q') >= 0,
                                          z3.Int('q') < ni),
                                   ai(z3.Int('q'))),
                        z3.Implies(z3.And(z3.Int('q') >= 0,
                                          z3.Int('q') < ne),
                                   ae(z3.Int('q'))))))), N(),
                    '_islp returns False only if the objective or some '
                    'constraint function is not affine',
                    extra={'prop': 'C14'})
        return {'paths': len(outs)}
    rep = driver.verify('modeling.py', 'op._islp', L, setup, on_outcomes,
                        config={'unroll': 8}, scenario='any')
    return rep

