"""C11 / C12: the one-line operators of `variable` and the comparison
operators of `variable` and `_function`.

  variable:  v + a, a + v, v - a, a - v, v * a, a * v, v / a, v[key]  are
             (+v).__op__(a): the variable is first turned into the affine
             function +v (a new object) and the operator of _function -- under
             contract in function_spec / function_index_spec -- does the work;
             the in-place forms are refused with NotImplementedError.
  f <= g  is the constraint  f - g <= 0      (constraint(f - g, '<'))
  f >= g  is the constraint  g - f <= 0      (constraint(g - f, '<'))
  f == g  is the constraint  f - g  = 0      (constraint(f - g, '='))
  for f a variable or a function; < and > are refused (NotImplementedError).
The direction of the difference and the type character are what C12's
"the variable values satisfy every original constraint" rests on.
Each method body is executed by pyvc with abstract operands; the result must
be exactly the documented call.
"""
import ast, z3
from engine.pyvc import driver, core
from engine.pyvc.core import (Dyn, Ref, R, B, I, Ext, Unknown, Unsupported,
                              NeedFork, PyRaise, const_of, Outcome)
from contracts.py.extern_cvxopt import LIB as L


class Opd:
    """an operand (self or other)"""
    abs_object = True

    def __init__(self, name):
        self.name = name

    def abs_unop(self, ex, st, op, n):
        if isinstance(op, ast.UAdd):
            return Pos(self)
        if isinstance(op, ast.USub):
            return Neg(self)
        raise Unsupported('unary operation')

    def abs_binop(self, ex, st, op, b, n):
        if isinstance(op, ast.Sub):
            return Diff(self, b)
        raise Unsupported('operation on an operand')

    def abs_rbinop(self, ex, st, op, a, n):
        if isinstance(op, ast.Sub):
            return Diff(a, self)
        raise Unsupported('operation on an operand')

    def abs_getattr(self, ex, st, attr, n):
        return core.NOTFOUND


class Pos:
    abs_object = True

    def __init__(self, of):
        self.of = of

    def abs_method(self, ex, st, name, args, kwargs, n):
        return CallRes(self, name, tuple(args), dict(kwargs))

    def abs_getattr(self, ex, st, attr, n):
        return core.NOTFOUND


class Neg(Pos):
    pass


class Diff:
    abs_object = True

    def __init__(self, a, b):
        self.a, self.b = a, b


class CallRes:
    abs_object = True

    def __init__(self, recv, name, args, kwargs):
        self.recv, self.name, self.args, self.kwargs = recv, name, args, kwargs


class ConRes:
    abs_object = True

    def __init__(self, f, typ):
        self.f, self.typ = f, typ


DELEG = ['__add__', '__radd__', '__sub__', '__rsub__', '__mul__',
         '__rmul__', '__truediv__', '__getitem__']
REFUSED = {'variable': ['__iadd__', '__isub__', '__imul__', '__itruediv__',
                        '__lt__', '__gt__'],
           '_function': ['__lt__', '__gt__']}
REL = {'__le__': ('self', 'other', '<'), '__ge__': ('other', 'self', '<'),
       '__eq__': ('self', 'other', '=')}


def obligations():
    tree, src = driver.load_module('modeling.py')
    obs = []

    def add(fn, oid, kind, status, text, line=0, detail=None):
        obs.append({'id': 'modeling.py:%s:%s:%s' % (fn, kind, oid),
                    'kind': kind, 'status': status, 'text': text,
                    'line': line, 'model': None, 'detail': detail,
                    'by': ['pyvc'] if status == 'proved' else []})
    saved = L.ext.get('cvxopt.modeling.constraint')

    def m_constraint(ex_, st, args, kwargs, n):
        if len(args) == 2 and not kwargs:
            return ConRes(args[0], const_of(args[1])[1])
        raise Unsupported('constraint(%r)' % (args,))

    def run(cls, meth):
        ex = core.Executor(tree, 'cvxopt.modeling', L, {'unroll': 8})
        me, other = Opd('self'), Opd('other')

        def setup(ex_, st, fid, f_):
            L.ext['cvxopt.modeling.constraint'] = m_constraint
            L.pure.add('cvxopt.modeling.constraint')
            fr = st.frames[fid]
            fr['self'] = me
            for a in f_.args.args[1:]:
                fr[a.arg] = other
            fr['constraint'] = Ext('cvxopt.modeling.constraint')
            st.ghost['frame_check'] = False
        ex.find_function('%s.%s' % (cls, meth))
        return me, other, ex.run_function('%s.%s' % (cls, meth), setup)
    try:
        for cls in ('variable', '_function'):
            fnname = lambda m_: '%s.%s' % (cls, m_)
            if cls == 'variable':
                for meth in DELEG:
                    try:
                        me, other, outs = run(cls, meth)
                    except (Unsupported, KeyError) as e:
                        add(fnname(meth), 'supported', 'operator-delegates',
                            'undecided', '%s is inside the supported subset'
                            % fnname(meth), detail=repr(e))
                        continue
                    ok = len(outs) == 1 and outs[0].kind == 'return' and \
                        isinstance(outs[0].val, CallRes) and type(
                            outs[0].val.recv) is Pos and \
                        outs[0].val.recv.of is me and \
                        outs[0].val.name == meth and \
                        outs[0].val.args == (other,) and \
                        not outs[0].val.kwargs
                    add(fnname(meth), 'call', 'operator-delegates',
                        'proved' if ok else 'refuted',
                        'variable.%s(other) is (+self).%s(other): the same '
                        'operator of the affine function +self, with the '
                        'same operand' % (meth, meth))
            for meth in REFUSED[cls]:
                try:
                    me, other, outs = run(cls, meth)
                except (Unsupported, KeyError) as e:
                    add(fnname(meth), 'supported', 'operator-refuses',
                        'undecided', '%s is inside the supported subset' %
                        fnname(meth), detail=repr(e))
                    continue
                ok = len(outs) >= 1 and all(
                    o.kind == 'raise' and o.val[0] == 'NotImplementedError'
                    for o in outs)
                add(fnname(meth), 'refuses', 'operator-refuses',
                    'proved' if ok else 'refuted',
                    '%s.%s is refused with NotImplementedError' % (cls, meth))
            for meth, (a, b, typ) in REL.items():
                try:
                    me, other, outs = run(cls, meth)
                except (Unsupported, KeyError) as e:
                    add(fnname(meth), 'supported', 'relation-direction',
                        'undecided', '%s is inside the supported subset' %
                        fnname(meth), detail=repr(e))
                    continue
                opd = {'self': me, 'other': other}
                ok = len(outs) == 1 and outs[0].kind == 'return' and \
                    isinstance(outs[0].val, ConRes) and isinstance(
                        outs[0].val.f, Diff) and outs[0].val.f.a is opd[a] \
                    and outs[0].val.f.b is opd[b] and outs[0].val.typ == typ
                add(fnname(meth), 'constraint', 'relation-direction',
                    'proved' if ok else 'refuted',
                    "%s.%s(other) is constraint(%s - %s, '%s'): the "
                    'constraint %s - %s %s 0' % (cls, meth, a, b, typ, a, b,
                                                 '<=' if typ == '<' else '='))
    finally:
        if saved is None:
            L.ext.pop('cvxopt.modeling.constraint', None)
        else:
            L.ext['cvxopt.modeling.constraint'] = saved
    return obs
