"""sparse.c: memory safety of indexing (C19 / C16 index clause) -- work in
progress: spmatrix_subscr under the footprint obligations of cvc."""
import z3
from engine.cvc.exec import (Oblig, PtrV, IntV, NULL, Unsupported, toint,
                             PyObj, CT, Opaque)
from engine.cvc import driver
from contracts.c import dense_spec as D


def init_sp_self_args(ex, st, params):
    """(spmatrix *self, PyObject *args)"""
    p0 = params[0]
    o = ex.new_obj('self')
    ex.axioms.append(o.issp)
    ex.axioms.extend(o.valid_axioms())
    # valid(ccs): the arrays exist in memory -- colptr has ncols + 1 and
    # rowind / values nnz entries of 8 (16) bytes inside a 2^63 byte address
    # space
    ex.axioms.append(o.sp_ncols <= 2**59)
    ex.axioms.append(o.sp_nnz <= 2**58)
    st.vars[p0['id']] = PtrV(None, 0, 'spmatrix', obj=o)
    st.ghost['self'] = o
    for p in params[1:]:
        t = CT(p['ty'])
        if t.kind == 'ptr':
            q = ex.new_obj(p['name'])
            st.vars[p['id']] = PtrV(None, 0, t.pointee, obj=q)
        elif t.kind == 'int':
            st.vars[p['id']] = ex.fresh_int(p['name'], 'int')
        else:
            st.vars[p['id']] = Opaque(p['name'])


def read_spbuf(ex, st, p, ty, n):
    """loads from the colptr / rowind arrays of a sparse matrix: the value is
    a function of the position, and valid(ccs) (cvxopt.h: column pointers
    start at 0, are nondecreasing and end at nnz; row indices lie in
    [0, nrows)) is instantiated at the position read -- the type invariant of
    spmatrix, assumed on entry"""
    r = p.region
    o = r.owner
    t = CT(ty)
    if t.kind != 'int':
        # an entry of the values array: named by its position
        import hashlib
        offs = z3.simplify(p.off).sexpr()
        lname = 'mem_%s[%s]' % (r.name, hashlib.md5(
            offs.encode()).hexdigest()[:10])
        fv = FltV(z3.Real(lname), ty)
        st.ghost[('floadrec', lname)] = (r, p.off, 8, fv.t)
        return fv
    idx = z3.simplify(p.off / 8) if False else None
    off = p.off
    k = z3.Int('?')
    which = r.name.rsplit('.', 1)[-1]
    pos = off / 8 if not z3.is_int_value(z3.simplify(off)) else \
        z3.IntVal(z3.simplify(off).as_long() // 8)
    pos = z3.simplify(pos)
    if which == 'colptr':
        cp = z3.Function('colptr(%s)' % o.name, z3.IntSort(), z3.IntSort())
        ex.axioms.append(z3.Implies(z3.And(pos >= 0, pos <= o.sp_ncols),
                                    z3.And(cp(pos) >= 0,
                                           cp(pos) <= o.sp_nnz)))
        ex.axioms.append(z3.Implies(z3.And(pos >= 0, pos < o.sp_ncols),
                                    cp(pos) <= cp(pos + 1)))
        ex.axioms.append(z3.Implies(z3.And(pos >= 1, pos <= o.sp_ncols),
                                    cp(pos - 1) <= cp(pos)))
        ex.axioms.append(cp(0) == 0)
        return IntV(cp(pos), 'long')
    if which == 'rowind':
        ri = z3.Function('rowind(%s)' % o.name, z3.IntSort(), z3.IntSort())
        ex.axioms.append(z3.Implies(z3.And(pos >= 0, pos < o.sp_nnz),
                                    z3.And(ri(pos) >= 0,
                                           ri(pos) < o.sp_nrows)))
        return IntV(ri(pos), 'long')
    return None


def post_none(ex, finished, extra_obs):
    return {'paths': len(finished)}


FUNCS = {'spmatrix_subscr': {
    'init': init_sp_self_args, 'post': post_none,
    'externs': dict(D.FUNCS['matrix_subscr']['externs'],
                    **{'read:spbuf': read_spbuf}),
    'config': {'index_may_alias': False,
               'allow_unsupported': ['Matrix_NewFromSequence',
                                     'spmatrix_getitem', 'SpMatrix_New',
                                     'alloc_ccs', 'free_lists_exit',
                                     'write_num', 'num2PyObject',
                                     'alloc_spa', 'free_spa', 'init_spa',
                                     'spa2compressed', 'free_ccs',
                                     'SpMatrix_NewFromSpMatrix',
                                     'convert_ccs', 'without contract']}}}


# ----------------------------------------------------------------- sp_gemv
# y := alpha*op(A)*x + beta*y for the m x n block of a sparse A that starts
# at linear offset oA (row oi = oA mod nrows, column oj = oA div nrows), dense
# strided x and y (base.gemv with a sparse first argument; matrices.rst /
# blas.rst).  Contract of the kernels sp_dgemv / sp_zgemv:
#   requires   m, n >= 0, oA >= 0, nrows >= 1 (if m != 0), oi + m <= nrows,
#              oj + n <= ncols, ix != 0, iy != 0, x (y) holds the strided
#              vector of length n resp. m ('N') or m resp. n ('T','C')
#   ensures    memory safety (all reads of colptr / rowind / values, x, y in
#              bounds) and the DEFINITION: the column loop runs over exactly
#              j = oj .. oj+n-1, the entry loop over the stored entries of
#              that column, and an entry (r, j) is used iff oi <= r < oi + m;
#              then y[pos_y(r - oi)] (resp. pos_y(j - oj)) is incremented by a
#              product that reads values[k] and x[pos_x(j - oj)] (resp.
#              pos_x(r - oi)), pos(t) = inc*t for inc > 0, inc*(t + 1 - len)
#              for inc < 0 (the BLAS convention)
from engine.cvc.exec import Region, StructV, FltV


def _factors(t, conj=None):
    """factors of a product term built from the engine's uninterpreted
    fmul / conj, as (term, conjugated?) pairs with the conjugation a z3 Bool;
    conj distributes over products and cancels with itself; a conditional
    `c ? conj(v) : v` is the factor v conjugated iff c"""
    conj = z3.BoolVal(False) if conj is None else conj
    if z3.is_app(t) and t.decl().name() == 'fmul' and t.num_args() == 2:
        return _factors(t.arg(0), conj) + _factors(t.arg(1), conj)
    if z3.is_app(t) and t.decl().name() == 'conj' and t.num_args() == 1:
        return _factors(t.arg(0), z3.Not(conj))
    if z3.is_app(t) and t.decl().kind() == z3.Z3_OP_ITE:
        c, a, b = t.arg(0), t.arg(1), t.arg(2)
        fa, fb = _factors(a, conj), _factors(b, conj)
        if len(fa) == len(fb) and all(z3.eq(x[0], y[0])
                                      for x, y in zip(fa, fb)):
            return [(x[0], z3.If(c, x[1], y[1])) for x, y in zip(fa, fb)]
    return [(t, conj)]


def increment_is(ex, pc, val, y_old, alpha, a_k, x_j, conj_a):
    """val == y_old + alpha * (conj?) a_k * x_j  up to the order and the
    association of the factors (floating-point products are uninterpreted,
    so only the multiset of factors is compared); conj_a: z3 Bool saying when
    the matrix entry has to be conjugated"""
    if not (z3.is_app(val) and val.decl().name() == 'fadd' and
            val.num_args() == 2):
        return False
    for yo, prod in ((val.arg(0), val.arg(1)), (val.arg(1), val.arg(0))):
        if not any(z3.eq(yo, y_) for y_ in y_old):
            continue
        got = sorted(_factors(prod), key=lambda fc: fc[0].sexpr())
        for a_ in a_k:
            for x_ in x_j:
                want = sorted([(alpha, z3.BoolVal(False)), (a_, conj_a),
                               (x_, z3.BoolVal(False))],
                              key=lambda fc: fc[0].sexpr())
                if len(got) != len(want) or not all(
                        z3.eq(g_[0], w_[0]) for g_, w_ in zip(got, want)):
                    continue
                same = z3.And([g_[1] == w_[1] for g_, w_ in zip(got, want)])
                if ex.check(pc, [z3.Not(same)]) == z3.unsat:
                    return True
    return False


def init_sp_gemv(ex, st, params):
    o = ex.new_obj('A')
    ex.axioms.append(o.issp)
    ex.axioms.extend(o.valid_axioms())
    ex.axioms += [o.sp_ncols <= 2**59, o.sp_nnz <= 2**58]
    g = {}
    for p in params:
        nm = p['name']
        if nm == 'tA':
            v = ex.fresh_int('tA', 'char')
            ex.axioms.append(z3.Or([v.t == ord(c) for c in 'NTC']))
            st.vars[p['id']] = v
            g[nm] = v.t
        elif nm in ('m', 'n', 'oA', 'ix', 'iy'):
            v = ex.fresh_int(nm, 'int')
            st.vars[p['id']] = v
            g[nm] = v.t
        elif nm in ('alpha', 'beta'):
            st.vars[p['id']] = StructV('number', {
                'd': FltV(z3.Real(nm + '.d'), 'double'),
                'z': FltV(z3.Real(nm + '.z'), 'double complex'),
                'i': ex.fresh_int(nm + '.i', 'long')})
        elif nm == 'a':
            st.vars[p['id']] = PtrV(None, 0, 'ccs', obj=o)
        elif nm in ('x', 'y'):
            sz = z3.Int('len(%s)' % nm)
            esz = z3.If(o.sp_id == 2, 16, 8)
            r = Region('argbuf', nm, sz * esz)
            st.vars[p['id']] = PtrV(r, 0, 'void')
            g[nm] = (r, sz)
        else:
            raise Unsupported('parameter %s of the sparse product' % nm)
    m, n, oA, ix, iy = g['m'], g['n'], g['oA'], g['ix'], g['iy']
    N_ = g['tA'] == ord('N')
    lenx = z3.If(N_, n, m)
    leny = z3.If(N_, m, n)

    def vec(ln, inc):
        a_ = z3.If(inc >= 0, inc, -inc)
        return z3.If(ln > 0, 1 + (ln - 1) * a_, 0)
    nr, nc = o.sp_nrows, o.sp_ncols
    pre = [m >= 0, n >= 0, oA >= 0, ix != 0, iy != 0,
           z3.Implies(m != 0, nr >= 1),
           g['x'][1] >= vec(lenx, ix), g['y'][1] >= vec(leny, iy)]
    # oi + m <= nrows, oj + n <= ncols  (oi = oA mod nrows, oj = oA div
    # nrows: the very terms the code computes, so that the solver does not
    # have to rediscover the division)
    from engine.cvc.exec import cdiv, crem
    oi, oj = crem(oA, nr), cdiv(oA, nr)
    # (the block may even wrap around the last row: oi + m <= nrows is not
    # required -- base.gemv does not check it -- only the columns must exist)
    pre += [z3.Implies(z3.And(m != 0, n != 0), oj + n <= nc)]
    # the kernel is entered through the table sp_gemv[id]
    pre += [o.sp_id == (1 if ex.fname == 'sp_dgemv' else 2)]
    st.pc.extend(pre)
    st.ghost['gemv'] = dict(g, A=o, oi=oi, oj=oj, lenx=lenx, leny=leny)


def post_sp_gemv(ex, finished, extra_obs):
    def ob(kind, pc, goal, text, line=0, force=None):
        extra_obs.append(Oblig('%s:%s:%s' % (ex.fname, kind, text), kind,
                               list(pc), z3.simplify(goal) if not isinstance(
                                   goal, bool) else z3.BoolVal(goal), text,
                               line, {'force': force} if force else None))
    g = None
    for st, kind, val in finished:
        g = st.ghost.get('gemv')
        if g:
            break
    if not g:
        ob('covered', [], False, 'the kernel was executed')
        return {}
    o, m, n, oi, oj, ix, iy = g['A'], g['m'], g['n'], g['oi'], g['oj'], \
        g['ix'], g['iy']
    cp = z3.Function('colptr(%s)' % o.name, z3.IntSort(), z3.IntSort())
    ri = z3.Function('rowind(%s)' % o.name, z3.IntSort(), z3.IntSort())
    xr, yr = g['x'][0], g['y'][0]
    esz = z3.If(o.sp_id == 2, 16, 8)

    def pos(t, inc, ln):
        return z3.If(inc > 0, inc * t, inc * (t + 1 - ln))
    logs = ex.loop_log
    outer = [E for E in logs if E['counter'] is not None and any(
        isinstance(b_.get('env'), dict) for b_ in E['body']) and
        E['ord'] in (0, 2)]
    nst = 0
    for E in logs:
        if E['ord'] in (0, 2):
            # the column loops: j (i) = oj .. oj + n - 1
            if E['counter'] is None:
                ob('iteration-space', [], False, 'the column loop runs a '
                   'counter up in unit steps', E['line'])
                continue
            c = E['head_env'][E['counter']].t
            ob('iteration-space', E['entry_pc'], E['lo'] == oj,
               'the column loop starts at column oj = oA div nrows',
               E['line'])
            ob('iteration-space', E['head_pc'], E['cond'] == (c < oj + n),
               'the column loop ends before column oj + n', E['line'])
        if E['ord'] in (1, 3):
            # the entry loops: k = colptr[j] .. colptr[j+1] - 1
            cname = [nm for nm in ('j', 'i') if nm in E['entry_env']]
            col = None
            for nm in cname:
                v = E['entry_env'][nm]
                if isinstance(v, IntV) and ex.check(
                        E['head_pc'], [z3.Not(z3.And(v.t >= oj,
                                                     v.t < oj + n))]) == \
                        z3.unsat:
                    col = v.t
            if E['counter'] is None or col is None:
                ob('iteration-space', [], False, 'the entry loop runs a '
                   'counter over the entries of the current column',
                   E['line'], force='undecided')
                continue
            k = E['head_env'][E['counter']].t
            ob('iteration-space', E['entry_pc'], E['lo'] == cp(col),
               'the entry loop starts at colptr[column]', E['line'])
            ob('iteration-space', E['head_pc'], E['cond'] == (
                k < cp(col + 1)), 'the entry loop ends before '
               'colptr[column + 1]', E['line'])
            r = ri(k)
            inwin = z3.And(r >= oi, r < oi + m)
            isN = E['ord'] == 1
            for b in E['body']:
                ys = [s_ for s_ in b['fstores'] if s_[0] is yr]
                if len(ys) == 0:
                    ob('kernel-definition', b['pc'], z3.Not(inwin),
                       'a stored entry is skipped only if its row lies '
                       'outside [oi, oi + m)', E['line'])
                    continue
                nst += 1
                ob('kernel-definition', b['pc'], z3.BoolVal(len(ys) == 1),
                   'one element of y is updated per stored entry', E['line'])
                r_, off_, sz_, val_, pc_, ln_, loads_ = ys[-1]
                ty = (r - oi) if isN else (col - oj)
                tx = (col - oj) if isN else (r - oi)
                leny = m if isN else n
                lenx = n if isN else m
                goal = z3.And(inwin, off_ == esz * pos(ty, iy, leny))
                ob('kernel-definition', pc_, goal,
                   'an entry (r, j) inside the block updates y at the '
                   'position of %s (BLAS stride convention)' % (
                       'its row r - oi' if isN else 'its column j - oj'),
                   ln_)
                xl = [l_ for l_ in loads_ if l_[0] is xr]
                vl = [l_ for l_ in loads_ if l_[0].name.endswith('.values')]
                yl = [l_ for l_ in loads_ if l_[0] is yr]
                gx = z3.Or([l_[1] == esz * pos(tx, ix, lenx) for l_ in xl]) \
                    if xl else z3.BoolVal(False)
                gv = z3.Or([l_[1] == esz * k for l_ in vl]) if vl else \
                    z3.BoolVal(False)
                gy = z3.Or([l_[1] == off_ for l_ in yl]) if yl else \
                    z3.BoolVal(False)
                ob('kernel-definition', pc_, z3.And(gx, gv, gy),
                   'the increment multiplies values[k] with x at the '
                   'position of %s and is added to the old y entry' % (
                       'the column j - oj' if isN else 'the row r - oi'),
                   ln_)
                # the value: y_old + alpha * a * x, a conjugated exactly for
                # trans = 'C' (complex kernel)
                isz = ex.fname == 'sp_zgemv'
                alpha_t = z3.Real('alpha.z' if isz else 'alpha.d')
                conj_a = (g['tA'] == ord('C')) if isz else z3.BoolVal(False)
                okv = increment_is(
                    ex, pc_, val_, [l_[3] for l_ in yl], alpha_t,
                    [l_[3] for l_ in vl], [l_[3] for l_ in xl], conj_a)
                ob('kernel-definition', pc_, z3.BoolVal(okv),
                   'the value stored is y + alpha * a * x with the entry '
                   'a of A conjugated exactly when trans is C (and '
                   'nothing else conjugated)', ln_)
    # y := beta*y over the strided extent of y, first
    seen_sc = 0
    done = set()
    for st, kind, val in finished:
        for rec in st.calls:
            if id(rec) in done or not rec.name.endswith('scal_'):
                continue
            done.add(id(rec))
            seen_sc += 1
            ints, ptrs = rec.args['ints'], rec.args['ptrs']
            yp = ptrs.get('x')
            leny_ = z3.If(g['tA'] == ord('N'), m, n)
            absy = z3.If(iy >= 0, iy, -iy)
            goal = z3.And(ints['n'] == leny_, ints['incx'] == absy,
                          z3.BoolVal(isinstance(yp, PtrV) and
                                     yp.region is yr),
                          yp.off == 0 if isinstance(yp, PtrV) else False)
            ob('kernel-definition', rec.pc, goal,
               'y is scaled by beta over its whole strided extent: '
               'scal(len y, beta, y, |incy|) (the BLAS routine does nothing '
               'for a non-positive increment)', rec.line)
    ob('covered', [], seen_sc >= 1, 'the scaling of y by beta is reached')
    ob('covered', [], nst >= 2, 'both transposition cases update y (%d '
       'store paths)' % nst)
    return {'loops': len(logs)}


for _f in ('sp_dgemv', 'sp_zgemv'):
    from contracts.c import base_spec as _B
    FUNCS[_f] = {'init': init_sp_gemv, 'post': post_sp_gemv,
                 'externs': dict(_B.LOCAL_EXTERNS,
                                 **{'read:spbuf': read_spbuf}),
                 'config': {}}


# ----------------------------------------------------------------- sp_symv
# y := alpha*A_block*x + beta*y for the symmetric n x n block of a sparse A at
# (oi, oj), of which only the triangle `uplo` is referenced: a stored entry
# a = A[oi+i, oj+j] inside the block is used iff it lies in that triangle
# (uplo 'U': i <= j, 'L': i >= j); it contributes a*x_j to y_i and, if it is
# off the diagonal, a*x_i to y_j.
def init_sp_symv(ex, st, params):
    o = ex.new_obj('A')
    ex.axioms.append(o.issp)
    ex.axioms.extend(o.valid_axioms())
    ex.axioms += [o.sp_ncols <= 2**59, o.sp_nnz <= 2**58]
    g = {}
    for p in params:
        nm = p['name']
        if nm == 'uplo':
            v = ex.fresh_int('uplo', 'char')
            ex.axioms.append(z3.Or(v.t == ord('U'), v.t == ord('L')))
            st.vars[p['id']] = v
            g[nm] = v.t
        elif nm in ('n', 'oA', 'ix', 'iy'):
            v = ex.fresh_int(nm, 'int')
            st.vars[p['id']] = v
            g[nm] = v.t
        elif nm in ('alpha', 'beta'):
            st.vars[p['id']] = StructV('number', {
                'd': FltV(z3.Real(nm + '.d'), 'double'),
                'z': FltV(z3.Real(nm + '.z'), 'double complex'),
                'i': ex.fresh_int(nm + '.i', 'long')})
        elif nm == 'A':
            st.vars[p['id']] = PtrV(None, 0, 'ccs', obj=o)
        elif nm in ('x', 'y'):
            sz = z3.Int('len(%s)' % nm)
            esz = z3.If(o.sp_id == 2, 16, 8)
            r = Region('argbuf', nm, sz * esz)
            st.vars[p['id']] = PtrV(r, 0, 'void')
            g[nm] = (r, sz)
        else:
            raise Unsupported('parameter %s of the sparse product' % nm)
    n, oA, ix, iy = g['n'], g['oA'], g['ix'], g['iy']
    from engine.cvc.exec import cdiv, crem
    nr, nc = o.sp_nrows, o.sp_ncols

    def vec(ln, inc):
        a_ = z3.If(inc >= 0, inc, -inc)
        return z3.If(ln > 0, 1 + (ln - 1) * a_, 0)
    oi, oj = crem(oA, nr), cdiv(oA, nr)
    st.pc.extend([n >= 0, oA >= 0, ix != 0, iy != 0,
                  z3.Implies(n != 0, nr >= 1),
                  g['x'][1] >= vec(n, ix), g['y'][1] >= vec(n, iy),
                  z3.Implies(n != 0, z3.And(oi + n <= nr, oj + n <= nc)),
                  o.sp_id == (1 if ex.fname == 'sp_dsymv' else 2)])
    st.ghost['symv'] = dict(g, A=o, oi=oi, oj=oj)


def post_sp_symv(ex, finished, extra_obs):
    def ob(kind, pc, goal, text, line=0, force=None):
        extra_obs.append(Oblig('%s:%s:%s' % (ex.fname, kind, text), kind,
                               list(pc), z3.simplify(goal) if not isinstance(
                                   goal, bool) else z3.BoolVal(goal), text,
                               line, {'force': force} if force else None))
    g = None
    for st, kind, val in finished:
        g = st.ghost.get('symv')
        if g:
            break
    if not g:
        ob('covered', [], False, 'the kernel was executed')
        return {}
    o, n, oi, oj, ix, iy, uplo = g['A'], g['n'], g['oi'], g['oj'], \
        g['ix'], g['iy'], g['uplo']
    cp = z3.Function('colptr(%s)' % o.name, z3.IntSort(), z3.IntSort())
    ri = z3.Function('rowind(%s)' % o.name, z3.IntSort(), z3.IntSort())
    xr, yr = g['x'][0], g['y'][0]
    esz = z3.If(o.sp_id == 2, 16, 8)

    def pos(t, inc):
        return z3.If(inc > 0, inc * t, inc * (t + 1 - n))

    def used(i_, j_):
        return z3.And(i_ >= 0, i_ < n, z3.If(uplo == ord('U'), i_ <= j_,
                                             i_ >= j_))
    logs = ex.loop_log
    nst = 0
    for E in logs:
        if E['ord'] == 0:
            if E['counter'] is None:
                ob('iteration-space', [], False, 'the column loop runs a '
                   'counter up in unit steps', E['line'])
                continue
            c = E['head_env'][E['counter']].t
            ob('iteration-space', E['entry_pc'], E['lo'] == 0,
               'the column loop starts at the first column of the block',
               E['line'])
            ob('iteration-space', E['head_pc'], E['cond'] == (c < n),
               'the column loop covers the n columns of the block',
               E['line'])
        if E['ord'] == 1:
            jv = E['entry_env'].get('j')
            if E['counter'] is None or not isinstance(jv, IntV):
                ob('iteration-space', [], False, 'the entry loop runs a '
                   'counter over the entries of the current column',
                   E['line'], force='undecided')
                continue
            j = jv.t
            k = E['head_env'][E['counter']].t
            ob('iteration-space', E['entry_pc'], E['lo'] == cp(j + oj),
               'the entry loop starts at colptr[oj + j]', E['line'])
            ob('iteration-space', E['head_pc'], E['cond'] == (
                k < cp(j + oj + 1)), 'the entry loop ends before '
               'colptr[oj + j + 1]', E['line'])
            i = ri(k) - oi
            for b in E['body']:
                ys = [s_ for s_ in b['fstores'] if s_[0] is yr]
                if b['kind'] == 'break':
                    # leaving the column early: every later entry of the
                    # column (row indices increase inside a column) is
                    # outside the referenced triangle
                    k2 = z3.Int('k2?')
                    hyp = list(b['pc']) + [k2 > k, k2 < cp(j + oj + 1),
                                           ri(k2) > ri(k)]
                    ob('kernel-definition', hyp, z3.Not(used(ri(k2) - oi,
                                                             j)),
                       'the entry loop is left early only when no later '
                       'entry of the column lies in the referenced '
                       'triangle', E['line'])
                if len(ys) == 0:
                    ob('kernel-definition', b['pc'], z3.Not(used(i, j)),
                       'a stored entry is skipped only if it lies outside '
                       'the block or outside the referenced triangle',
                       E['line'])
                    continue
                nst += 1
                ob('kernel-definition', b['pc'], z3.And(
                    used(i, j), z3.If(i == j, len(ys) == 1, len(ys) == 2)),
                    'an entry of the referenced triangle updates one element '
                    'of y if it is on the diagonal and two otherwise',
                    E['line'])
                for q, (ty, tx) in enumerate(((i, j), (j, i))):
                    if q >= len(ys):
                        break
                    r_, off_, sz_, val_, pc_, ln_, loads_ = ys[q]
                    xl = [l_ for l_ in loads_ if l_[0] is xr]
                    vl = [l_ for l_ in loads_
                          if l_[0].name.endswith('.values')]
                    yl = [l_ for l_ in loads_ if l_[0] is yr]
                    gx = z3.Or([l_[1] == esz * pos(tx, ix) for l_ in xl]) \
                        if xl else z3.BoolVal(False)
                    gv = z3.Or([l_[1] == esz * k for l_ in vl]) if vl \
                        else z3.BoolVal(False)
                    gy = z3.Or([l_[1] == off_ for l_ in yl]) if yl else \
                        z3.BoolVal(False)
                    ob('kernel-definition', pc_, z3.And(
                        off_ == esz * pos(ty, iy), gx, gv, gy),
                        'the %s update of an entry a = A[i, j] adds a times '
                        'x at the position of %s to y at the position of %s '
                        '(BLAS stride convention)' % (
                            ('first', 'j', 'i') if q == 0 else
                            ('mirrored', 'i', 'j')), ln_)
                    alpha_t = z3.Real('alpha.z' if ex.fname == 'sp_zsymv'
                                      else 'alpha.d')
                    okv = increment_is(
                        ex, pc_, val_, [l_[3] for l_ in yl], alpha_t,
                        [l_[3] for l_ in vl], [l_[3] for l_ in xl],
                        z3.BoolVal(False))
                    ob('kernel-definition', pc_, z3.BoolVal(okv),
                       'the value stored by the %s update is y + alpha * a '
                       '* x (nothing conjugated)' % (
                           'first' if q == 0 else 'mirrored'), ln_)
    done = set()
    seen_sc = 0
    for st, kind, val in finished:
        for rec in st.calls:
            if id(rec) in done or not rec.name.endswith('scal_'):
                continue
            done.add(id(rec))
            seen_sc += 1
            ints, ptrs = rec.args['ints'], rec.args['ptrs']
            yp = ptrs.get('x')
            absy = z3.If(iy >= 0, iy, -iy)
            ob('kernel-definition', rec.pc, z3.And(
                ints['n'] == n, ints['incx'] == absy, z3.BoolVal(
                    isinstance(yp, PtrV) and yp.region is yr),
                yp.off == 0 if isinstance(yp, PtrV) else False),
                'y is scaled by beta over its whole strided extent: '
                'scal(n, beta, y, |incy|)', rec.line)
    ob('covered', [], seen_sc >= 1, 'the scaling of y by beta is reached')
    ob('covered', [], nst >= 2, 'both triangles update y (%d store paths)' %
       nst)
    return {'loops': len(logs)}


for _f in ('sp_dsymv', 'sp_zsymv'):
    FUNCS[_f] = {'init': init_sp_symv, 'post': post_sp_symv,
                 'externs': dict(_B.LOCAL_EXTERNS,
                                 **{'read:spbuf': read_spbuf}),
                 'config': {}}

