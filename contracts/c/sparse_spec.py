"""sparse.c: memory safety of indexing (C19 / C16 index clause) -- work in
progress: spmatrix_subscr under the footprint obligations of cvc."""
import z3
from engine.cvc.exec import (Oblig, PtrV, IntV, NULL, Unsupported, toint,
                             PyObj, CT, Opaque)
from engine.cvc import driver
from contracts.c import dense_spec as D


def init_sp_self_args(ex, st, params):
    """(spmatrix *self, PyObject *args)"""
    p0 = params[0]
    o = ex.new_obj('self')
    ex.axioms.append(o.issp)
    ex.axioms.extend(o.valid_axioms())
    # valid(ccs): the arrays exist in memory -- colptr has ncols + 1 and
    # rowind / values nnz entries of 8 (16) bytes inside a 2^63 byte address
    # space
    ex.axioms.append(o.sp_ncols <= 2**59)
    ex.axioms.append(o.sp_nnz <= 2**58)
    st.vars[p0['id']] = PtrV(None, 0, 'spmatrix', obj=o)
    st.ghost['self'] = o
    for p in params[1:]:
        t = CT(p['ty'])
        if t.kind == 'ptr':
            q = ex.new_obj(p['name'])
            st.vars[p['id']] = PtrV(None, 0, t.pointee, obj=q)
        elif t.kind == 'int':
            st.vars[p['id']] = ex.fresh_int(p['name'], 'int')
        else:
            st.vars[p['id']] = Opaque(p['name'])


def read_spbuf(ex, st, p, ty, n):
    """loads from the colptr / rowind arrays of a sparse matrix: the value is
    a function of the position, and valid(ccs) (cvxopt.h: column pointers
    start at 0, are nondecreasing and end at nnz; row indices lie in
    [0, nrows)) is instantiated at the position read -- the type invariant of
    spmatrix, assumed on entry"""
    r = p.region
    o = r.owner
    t = CT(ty)
    if t.kind != 'int':
        return None
    idx = z3.simplify(p.off / 8) if False else None
    off = p.off
    k = z3.Int('?')
    which = r.name.rsplit('.', 1)[-1]
    pos = off / 8 if not z3.is_int_value(z3.simplify(off)) else \
        z3.IntVal(z3.simplify(off).as_long() // 8)
    pos = z3.simplify(pos)
    if which == 'colptr':
        cp = z3.Function('colptr(%s)' % o.name, z3.IntSort(), z3.IntSort())
        ex.axioms.append(z3.Implies(z3.And(pos >= 0, pos <= o.sp_ncols),
                                    z3.And(cp(pos) >= 0,
                                           cp(pos) <= o.sp_nnz)))
        ex.axioms.append(z3.Implies(z3.And(pos >= 0, pos < o.sp_ncols),
                                    cp(pos) <= cp(pos + 1)))
        ex.axioms.append(z3.Implies(z3.And(pos >= 1, pos <= o.sp_ncols),
                                    cp(pos - 1) <= cp(pos)))
        ex.axioms.append(cp(0) == 0)
        return IntV(cp(pos), 'long')
    if which == 'rowind':
        ri = z3.Function('rowind(%s)' % o.name, z3.IntSort(), z3.IntSort())
        ex.axioms.append(z3.Implies(z3.And(pos >= 0, pos < o.sp_nnz),
                                    z3.And(ri(pos) >= 0,
                                           ri(pos) < o.sp_nrows)))
        return IntV(ri(pos), 'long')
    return None


def post_none(ex, finished, extra_obs):
    return {'paths': len(finished)}


FUNCS = {'spmatrix_subscr': {
    'init': init_sp_self_args, 'post': post_none,
    'externs': dict(D.FUNCS['matrix_subscr']['externs'],
                    **{'read:spbuf': read_spbuf}),
    'config': {'index_may_alias': False,
               'allow_unsupported': ['Matrix_NewFromSequence',
                                     'spmatrix_getitem', 'SpMatrix_New',
                                     'alloc_ccs', 'free_lists_exit',
                                     'write_num', 'num2PyObject',
                                     'alloc_spa', 'free_spa', 'init_spa',
                                     'spa2compressed', 'free_ccs',
                                     'SpMatrix_NewFromSpMatrix',
                                     'convert_ccs', 'without contract']}}}
