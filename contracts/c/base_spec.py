"""Memory-safety contracts for the generic (dense or sparse) products of
base.c: base_axpy, base_gemv, base_gemm, base_syrk, base_symv (C19)."""
import z3
from engine.cvc.exec import (IntV, BoolV, FltV, PtrV, StructV, Opaque, NULL,
                             Unsupported, toint, Impure, ArrV, StrV, CallRec)
from engine.cvc import driver
from contracts.c import dense_spec, blas_spec
from contracts.c.extern_blas import ROUTINES, make_handler as blas_handler


def table(base):
    """function table name[id](...) : the 'd' or 'z' BLAS routine with the
    same argument list (index 0, the 'i' entry, is never used: typecode 'i'
    is rejected before)"""
    hd = blas_handler(ROUTINES['d' + base + '_'])
    hz = blas_handler(ROUTINES['z' + base + '_'])

    def h(ex, st, n, args):
        if st.pure:
            raise Impure()
        it = toint(ex.ev(args[0], st)).t
        d = ex.decide(st, it == 1)
        if d is None:
            from engine.cvc.exec import NeedFork
            raise NeedFork(it == 1)
        if d:
            return hd(ex, st, n, args[1:])
        d0 = ex.decide(st, it == 0)
        if d0 is None:
            from engine.cvc.exec import NeedFork
            raise NeedFork(it == 0)
        if d0:
            if base in INT_KERNELS:
                # i_axpy / i_scal: the integer kernel defined in base.c; same
                # footprint as the real routine (elements of 8 bytes)
                ex.trusted.add('integer kernel i_%s of base.c: footprint of '
                               'the BLAS routine it stands for' % base)
                return hd(ex, st, n, args[1:])
            ex.oblige(st, 'deref', z3.BoolVal(False), n,
                      text='%s[0] is a NULL function pointer' % base)
            raise Unsupported('call through NULL table entry')
        ex.oblige(st, 'extern-requires', it == 2, n,
                  text='%s[id] is called with id in 0..2' % base)
        return hz(ex, st, n, args[1:])
    return h


INT_KERNELS = ('axpy', 'scal')


LOCAL_EXTERNS = dict(dense_spec.COMMON)
LOCAL_EXTERNS.update(blas_spec.LOCAL_EXTERNS)
for b_ in ('axpy', 'scal', 'gemv', 'gemm', 'syrk', 'symv', 'copy', 'swap'):
    LOCAL_EXTERNS[b_ + '[]'] = table(b_)

def post_scal_extent(ex, finished, extra_obs):
    """degenerate products (a dimension of A is zero) reduce to y := beta*y:
    the scaling must cover the strided extent of y, i.e. the BLAS routine is
    given a positive increment |incy| (xSCAL does nothing for incx <= 0).
    Reported under C16 (mixed sparse / dense products)"""
    from engine.cvc.exec import Oblig
    done = set()
    n = 0
    for st, kind, val in finished:
        parsed = st.ghost.get('parsed', {})
        iy = parsed.get('incy')
        if iy is None:
            continue
        iy = iy.t if isinstance(iy, IntV) else iy
        for rec in st.calls:
            if id(rec) in done or not rec.name.endswith('scal_'):
                continue
            done.add(id(rec))
            n += 1
            inc = rec.args['ints'].get('incx')
            goal = inc == z3.If(iy >= 0, iy, -iy)
            text = ('when a dimension of A is zero, y := beta*y is applied '
                    'over the strided extent of y: scal(len, beta, y, '
                    '|incy|)')
            extra_obs.append(Oblig('%s:effect-extent:%s' % (ex.fname, text),
                                   'effect-extent', list(rec.pc),
                                   z3.simplify(goal), text, rec.line))
    return {'scal_calls': n}


FUNCS = {}
for f in ('base_axpy', 'base_gemv', 'base_gemm', 'base_syrk', 'base_symv'):
    FUNCS[f] = {'init': driver.pycfunction_init,
                'post': post_scal_extent if f == 'base_gemv' else None,
                'config': {'allow_unsupported': ['sp_', 'spmatrix', 'SP_']}}
