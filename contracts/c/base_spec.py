"""Memory-safety contracts for the generic (dense or sparse) products of
base.c: base_axpy, base_gemv, base_gemm, base_syrk, base_symv (C19)."""
import z3
from engine.cvc.exec import (IntV, BoolV, FltV, PtrV, StructV, Opaque, NULL,
                             Unsupported, toint, Impure, ArrV, StrV, CallRec)
from engine.cvc import driver
from contracts.c import dense_spec, blas_spec
from contracts.c.extern_blas import ROUTINES, make_handler as blas_handler


def table(base):
    """function table name[id](...) : the 'd' or 'z' BLAS routine with the
    same argument list (index 0, the 'i' entry, is never used: typecode 'i'
    is rejected before)"""
    hd = blas_handler(ROUTINES['d' + base + '_'])
    hz = blas_handler(ROUTINES['z' + base + '_'])

    def h(ex, st, n, args):
        if st.pure:
            raise Impure()
        it = toint(ex.ev(args[0], st)).t
        d = ex.decide(st, it == 1)
        if d is None:
            from engine.cvc.exec import NeedFork
            raise NeedFork(it == 1)
        if d:
            return hd(ex, st, n, args[1:])
        d0 = ex.decide(st, it == 0)
        if d0 is None:
            from engine.cvc.exec import NeedFork
            raise NeedFork(it == 0)
        if d0:
            if base in INT_KERNELS:
                # i_axpy / i_scal: the integer kernel defined in base.c; same
                # footprint as the real routine (elements of 8 bytes)
                ex.trusted.add('integer kernel i_%s of base.c: footprint of '
                               'the BLAS routine it stands for' % base)
                return hd(ex, st, n, args[1:])
            ex.oblige(st, 'deref', z3.BoolVal(False), n,
                      text='%s[0] is a NULL function pointer' % base)
            raise Unsupported('call through NULL table entry')
        ex.oblige(st, 'extern-requires', it == 2, n,
                  text='%s[id] is called with id in 0..2' % base)
        return hz(ex, st, n, args[1:])
    return h


INT_KERNELS = ('axpy', 'scal')


def sp_kernel(kind):
    """sp_gemv[id](trans, m, n, alpha, A->obj, oA, x, ix, beta, y, iy) and
    sp_symv[id](uplo, n, alpha, A->obj, oA, x, ix, beta, y, iy): the call is
    checked against the kernels' contract (contracts/c/sparse_spec.py): its
    memory-safety preconditions become obligations of the caller, the vector
    arguments get the kernels' footprints, and the pointers passed must be
    the buffers of x and y at offsetx / offsety"""
    from engine.cvc.exec import cdiv, Oblig

    def h(ex, st, n, args):
        if st.pure:
            raise Impure()
        vals = [ex.ev(a, st) for a in args[1:]]
        if kind == 'gemv':
            fl, m, nn, alpha, A, oA, x, ix, beta, y, iy = vals
            m, nn = toint(m).t, toint(nn).t
        else:
            fl, nn, alpha, A, oA, x, ix, beta, y, iy = vals
            nn = toint(nn).t
            m = nn
        oA, ix, iy = toint(oA).t, toint(ix).t, toint(iy).t
        if not isinstance(A, PtrV) or A.obj is None or not isinstance(
                x, PtrV) or not isinstance(y, PtrV):
            raise Unsupported('sp_%s arguments' % kind)
        o = A.obj
        nr, nc = o.sp_nrows, o.sp_ncols
        ex.trusted.add('sp_%s: contract of the sparse kernel (contracts/c/'
                       'sparse_spec.py, discharged on sparse.c under C16)' %
                       kind)
        for text, g in (('m >= 0', m >= 0), ('n >= 0', nn >= 0),
                        ('offsetA >= 0', oA >= 0), ('incx != 0', ix != 0),
                        ('incy != 0', iy != 0),
                        ('A has a row unless the product is empty',
                         z3.Implies(m != 0, nr >= 1)),
                        ('the columns of the block exist: offsetA div nrows '
                         '+ n <= ncols',
                         z3.Implies(z3.And(m != 0, nn != 0),
                                    cdiv(oA, nr) + nn <= nc))):
            ex.oblige(st, 'extern-requires', g, n,
                      text='sp_%s requires %s' % (kind, text))
        idv = toint(ex.ev(args[0], st)).t
        esz = z3.If(idv == 2, 16, 8)
        if kind == 'gemv':
            isN = toint(fl).t == ord('N')
            lenx, leny = z3.If(isN, nn, m), z3.If(isN, m, nn)
        else:
            lenx = leny = nn

        def vec(ln, inc):
            a_ = z3.If(inc >= 0, inc, -inc)
            return z3.If(ln > 0, 1 + (ln - 1) * a_, 0)
        ex.bounds_oblig(x, vec(lenx, ix) * esz, st, n,
                        'sp_%s argument x (r)' % kind)
        ex.bounds_oblig(y, vec(leny, iy) * esz, st, n,
                        'sp_%s argument y (rw)' % kind)
        if y.region is not None:
            st.stores.append((y.region, y.off, vec(leny, iy) * esz,
                              list(st.path()), n.get('line'),
                              'sp_' + kind))
        st.calls.append(CallRec('sp_' + kind, {
            'ints': {'m': m, 'n': nn, 'oA': oA, 'incx': ix, 'incy': iy,
                     'flag': toint(fl).t}, 'scalars': {},
            'ptrs': {'x': x, 'y': y}, 'esz': esz}, list(st.path()),
            n.get('line')))
        return ex.fresh_int('sp_%s_status' % kind, 'int')
    return h


def post_sp_call(ex, finished, extra_obs):
    """the sparse kernels are handed the buffers of x and y at offsetx /
    offsety and the strides / offset into A that were asked for"""
    from engine.cvc.exec import Oblig
    done = set()
    n = 0
    for st, kind, val in finished:
        parsed = st.ghost.get('parsed', {})

        def pint(nm):
            v = parsed.get(nm)
            return v.t if isinstance(v, IntV) else v
        for rec in st.calls:
            if id(rec) in done or not rec.name.startswith('sp_'):
                continue
            done.add(id(rec))
            n += 1
            x, y = parsed.get('x'), parsed.get('y')
            px, py = rec.args['ptrs']['x'], rec.args['ptrs']['y']
            esz = rec.args['esz']
            conj = [z3.BoolVal(px.region is x.buffer_region()),
                    z3.BoolVal(py.region is y.buffer_region()),
                    px.off == pint('offsetx') * esz,
                    py.off == pint('offsety') * esz,
                    rec.args['ints']['incx'] == pint('incx'),
                    rec.args['ints']['incy'] == pint('incy'),
                    rec.args['ints']['oA'] == pint('offsetA')]
            text = ('the sparse kernel is called on x at offsetx and y at '
                    'offsety with the strides incx, incy and the offset '
                    'offsetA that were given')
            extra_obs.append(Oblig('%s:call-correspondence:%s' % (
                ex.fname, text), 'call-correspondence', list(rec.pc),
                z3.simplify(z3.And(conj)), text, rec.line))
    return n


LOCAL_EXTERNS = dict(dense_spec.COMMON)
LOCAL_EXTERNS.update(blas_spec.LOCAL_EXTERNS)
for b_ in ('axpy', 'scal', 'gemv', 'gemm', 'syrk', 'symv', 'copy', 'swap'):
    LOCAL_EXTERNS[b_ + '[]'] = table(b_)
LOCAL_EXTERNS['sp_gemv[]'] = sp_kernel('gemv')
LOCAL_EXTERNS['sp_symv[]'] = sp_kernel('symv')

def post_scal_extent(ex, finished, extra_obs):
    """degenerate products (a dimension of A is zero) reduce to y := beta*y:
    the scaling must cover the strided extent of y, i.e. the BLAS routine is
    given a positive increment |incy| (xSCAL does nothing for incx <= 0).
    Reported under C16 (mixed sparse / dense products)"""
    from engine.cvc.exec import Oblig
    done = set()
    n = 0
    for st, kind, val in finished:
        parsed = st.ghost.get('parsed', {})
        iy = parsed.get('incy')
        if iy is None:
            continue
        iy = iy.t if isinstance(iy, IntV) else iy
        for rec in st.calls:
            if id(rec) in done or not rec.name.endswith('scal_'):
                continue
            done.add(id(rec))
            n += 1
            inc = rec.args['ints'].get('incx')
            goal = inc == z3.If(iy >= 0, iy, -iy)
            text = ('when a dimension of A is zero, y := beta*y is applied '
                    'over the strided extent of y: scal(len, beta, y, '
                    '|incy|)')
            extra_obs.append(Oblig('%s:effect-extent:%s' % (ex.fname, text),
                                   'effect-extent', list(rec.pc),
                                   z3.simplify(goal), text, rec.line))
    return {'scal_calls': n}


def post_gemv(ex, finished, extra_obs):
    r = post_scal_extent(ex, finished, extra_obs)
    r['sp_calls'] = post_sp_call(ex, finished, extra_obs)
    return r


def post_symv(ex, finished, extra_obs):
    return {'sp_calls': post_sp_call(ex, finished, extra_obs)}


FUNCS = {}
for f in ('base_axpy', 'base_gemv', 'base_gemm', 'base_syrk', 'base_symv'):
    FUNCS[f] = {'init': driver.pycfunction_init,
                'post': {'base_gemv': post_gemv,
                         'base_symv': post_symv}.get(f),
                'config': {'allow_unsupported': ['sp_', 'spmatrix', 'SP_']}}
