"""Contracts for src/C/dense.c (DESIGN C15, C20, C19): index/shape/type layer.

Top-level postconditions are taken from doc/source/matrices.rst and the
property statements:
  * an integer index i on a dimension of size d is accepted iff -d <= i < d
    *as a Python integer* and then addresses element i mod d; otherwise
    IndexError;
  * the size of a matrix may be reassigned only to (m, n) with m, n >= 0 and
    m*n equal to the number of elements; the type invariant valid(matrix)
    is preserved;
  * in-place operators never change the typecode and never free or replace
    the buffer while it is exported (ob_exports > 0);
  * the buffer exported through the buffer protocol is the matrix' own
    storage with column-major shape/strides.
"""
import z3
from engine.cvc.exec import (IntV, BoolV, FltV, PtrV, PyObj, StrV, ArrV,
                             StructV, Opaque, Region, NULL, FuncV, CT, Oblig,
                             Unsupported, CallRec, toint, tobool, Impure,
                             sizeof_type, LObjField, NeedFork)
from engine.cvc import cast as cast_mod

E_SIZE = [8, 8, 16]
LONG_MIN, LONG_MAX = -2**63, 2**63 - 1


def esize(idt):
    return z3.If(idt == 2, 16, 8)


# ---------------------------------------------------------------- externs
def pylong_aslong(ex, st, n, args):
    """PyLong_AsLong(o): the value of o if it fits a C long.  ASSUMPTION
    (listed): Python integers used as indices / sizes fit a C long (larger
    ones make CPython raise OverflowError)."""
    p = ex.ev(args[0], st)
    if not (isinstance(p, PtrV) and p.obj is not None):
        raise Unsupported('PyLong_AsLong of %r' % (p,))
    o = p.obj
    v = o.extra.get('pyint')
    if v is None:
        v = z3.Int('pyint(%s)' % o.name)
        o.extra['pyint'] = v
        ex.axioms.append(z3.And(v >= LONG_MIN, v <= LONG_MAX))
        ex.trusted.add('assumption: Python integers passed as indices/sizes '
                       'fit a C long')
    return IntV(v, 'long')


def pytuple_size(ex, st, n, args):
    p = ex.ev(args[0], st)
    o = p.obj
    v = o.extra.setdefault('tuplen', z3.Int('len(%s)' % o.name))
    ex.axioms.append(v >= 0)
    return IntV(v, 'long')


def pytuple_getitem(ex, st, n, args):
    p = ex.ev(args[0], st)
    i = z3.simplify(toint(ex.ev(args[1], st)).t)
    o = p.obj
    if not z3.is_int_value(i):
        raise Unsupported('symbolic tuple index')
    key = 'item%d' % i.as_long()
    it = o.extra.get(key)
    if it is None:
        it = ex.new_obj('%s[%d]' % (o.name, i.as_long()))
        o.extra[key] = it
    ln = o.extra.setdefault('tuplen', z3.Int('len(%s)' % o.name))
    ex.oblige(st, 'deref', z3.And(i.as_long() >= 0, ln > i.as_long()), n,
              text='tuple item %d exists' % i.as_long())
    return PtrV(None, 0, 'PyObject', obj=it)


def elem_access(ex, st, n, buf, idx, idt, what):
    """access of element idx (an element index) of a buffer of typecode id"""
    if not isinstance(buf, PtrV):
        raise Unsupported('element access through %r' % (buf,))
    es = esize(idt)
    p = PtrV(buf.region, buf.off + idx.t * es, 'char', buf.null, buf.obj)
    ex.bounds_oblig(p, es, st, n, what)
    return p


def num2pyobject(ex, st, n, args):
    """num2PyObject[id](buffer, i): boxes element i of the buffer"""
    idt = toint(ex.ev(args[0], st))
    buf = ex.ev(args[1], st)
    idx = toint(ex.ev(args[2], st))
    p = elem_access(ex, st, n, buf, idx, idt.t, 'num2PyObject[id](buffer, '
                    '%s)' % cast_mod.src_of(ex.tu, args[2]))
    o = ex.new_obj('boxed', fresh=True)
    o.extra['element'] = (buf.region, idx.t)
    return PtrV(None, 0, 'PyObject', obj=o)


def write_num(ex, st, n, args):
    """write_num[id](dest, i, src, j): dest[i] = src[j]"""
    idt = toint(ex.ev(args[0], st))
    dst = ex.ev(args[1], st)
    i = toint(ex.ev(args[2], st))
    src = ex.ev(args[3], st)
    j = toint(ex.ev(args[4], st))
    t = cast_mod.src_of(ex.tu, n)
    elem_access(ex, st, n, src, j, idt.t, 'read in ' + t)
    p = elem_access(ex, st, n, dst, i, idt.t, 'write in ' + t)
    if p.region is not None:
        st.stores.append((p.region, p.off, esize(idt.t), list(st.path()),
                          n.get('line')))
    return Opaque('void')


def exc_if(st, cond, name):
    """the callee has set exception `name` on the executions where cond
    holds (the caller learns it from the callee's return value)"""
    st.ghost['exc_if'] = list(st.ghost.get('exc_if', [])) + [(cond, name)]


def convert_num(ex, st, n, args):
    """convert_num[id](dest, obj, scalar, offset): returns 0 or -1; with
    scalar != 0 the object is converted as a Python number, which fails for
    the integer and real typecodes when it is a matrix"""
    ok = ex.fresh_bool('convert_ok')
    try:
        idt = toint(ex.ev(args[0], st)).t
        obj = ex.ev(args[2], st)
        sc = toint(ex.ev(args[3], st)).t
        if isinstance(obj, PtrV) and obj.obj is not None:
            ex.axioms.append(z3.Implies(z3.And(ok, sc != 0, idt != 2),
                                        z3.Not(obj.obj.ismat)))
    except Unsupported:
        pass
    exc_if(st, z3.Not(ok), 'PyExc_TypeError')
    return IntV(z3.If(ok, 0, -1), 'int')


def mtx_op(ex, st, n, args):
    """mtx_rem[id](buf, n, lgt) etc.: element-wise update of lgt elements"""
    idt = toint(ex.ev(args[0], st))
    buf = ex.ev(args[1], st)
    lgt = toint(ex.ev(args[3], st))
    if isinstance(buf, PtrV):
        ex.bounds_oblig(buf, lgt.t * esize(idt.t), st, n,
                        'element-wise kernel over ' + cast_mod.src_of(
                            ex.tu, n))
    return IntV(z3.If(ex.fresh_bool('kernel_ok'), 0, -1), 'int')


def axpy_tbl(ex, st, n, args):
    """axpy[id](&n, &alpha, x, &incx, y, &incy): y := alpha*x + y on n
    elements of typecode id (unit increments at every call site here)"""
    idt = toint(ex.ev(args[0], st))
    nn = toint(ex.load_through(ex.ev(args[1], st), st, n))
    x = ex.ev(args[3], st)
    y = ex.ev(args[5], st)
    t = cast_mod.src_of(ex.tu, n)
    for p, w in ((x, 'x'), (y, 'y')):
        if isinstance(p, PtrV):
            ex.bounds_oblig(p, nn.t * esize(idt.t), st, n,
                            'axpy[id] argument %s: %s' % (w, t))
    if isinstance(y, PtrV) and y.region is not None:
        st.stores.append((y.region, y.off, nn.t * esize(idt.t),
                          list(st.path()), n.get('line')))
    return Opaque('void')


def scal_tbl(ex, st, n, args):
    """scal[id](&n, &alpha, x, &incx): x := alpha*x on n elements"""
    idt = toint(ex.ev(args[0], st))
    nn = toint(ex.load_through(ex.ev(args[1], st), st, n))
    x = ex.ev(args[3], st)
    if isinstance(x, PtrV):
        ex.bounds_oblig(x, nn.t * esize(idt.t), st, n, 'scal[id] argument: '
                        + cast_mod.src_of(ex.tu, n))
        if x.region is not None:
            st.stores.append((x.region, x.off, nn.t * esize(idt.t),
                              list(st.path()), n.get('line')))
    return Opaque('void')


def div_array_tbl(ex, st, n, args):
    """div_array[id](buf, number, n): element-wise division of n elements;
    returns 0 or -1 (division by zero)"""
    idt = toint(ex.ev(args[0], st))
    buf = ex.ev(args[1], st)
    nn = toint(ex.ev(args[3], st))
    if isinstance(buf, PtrV):
        ex.bounds_oblig(buf, nn.t * esize(idt.t), st, n,
                        'div_array[id] argument: ' + cast_mod.src_of(
                            ex.tu, n))
        own = getattr(buf.region, 'owner', None) if buf.region else None
        if own is not None and hasattr(own, 'id'):
            ex.oblige(st, 'kernel-typecode', idt.t == own.id, n,
                      text='div_array[id] is the kernel for the typecode of '
                      'the buffer it is applied to')
    return IntV(z3.If(ex.fresh_bool('div_ok'), 0, -1), 'int')


def gemm_tbl(ex, st, n, args):
    """gemm[id](transa, transb, &m, &n, &k, &alpha, A, &lda, B, &ldb, &beta,
    C, &ldc) with no transposition and tight leading dimensions at the call
    sites of dense.c"""
    idt = toint(ex.ev(args[0], st))
    vals = [ex.ev(a, st) for a in args[1:]]

    def iv(i):
        return toint(ex.load_through(vals[i], st, n)).t
    m, nn, k = iv(2), iv(3), iv(4)
    lda, ldb, ldc = iv(7), iv(9), iv(12)
    A, B, C = vals[6], vals[8], vals[11]
    es = esize(idt.t)
    t = cast_mod.src_of(ex.tu, n)

    def ge(r, c, ld):
        return z3.If(z3.And(r > 0, c > 0), (c - 1) * ld + r, 0)
    for p, e, w in ((A, ge(m, k, lda), 'A'), (B, ge(k, nn, ldb), 'B'),
                    (C, ge(m, nn, ldc), 'C')):
        if isinstance(p, PtrV):
            ex.bounds_oblig(p, e * es, st, n, 'gemm[id] argument %s: %s' % (
                w, t))
    if isinstance(C, PtrV) and C.region is not None:
        st.stores.append((C.region, C.off, ge(m, nn, ldc) * es,
                          list(st.path()), n.get('line')))
    return Opaque('void')


def get_id(ex, st, n, args):
    """get_id(obj, scalar): typecode id of a matrix / number, in {0,1,2}"""
    p = ex.ev(args[0], st)
    sc = tobool(ex.ev(args[1], st))
    o = p.obj
    nid = o.extra.setdefault('numid', z3.Int('numid(%s)' % o.name))
    ex.axioms.append(z3.And(nid >= 0, nid <= 2))
    return IntV(z3.If(sc, nid, o.id), 'int')


def tp_alloc(ex, st, n, args):
    """type->tp_alloc(type, 0): NULL or a fresh zero-initialised object"""
    o = ex.new_obj('newmatrix', fresh=True)
    ex.axioms.append(o.ismat)
    o.extra['fresh_alloc'] = True
    return PtrV(None, 0, 'matrix', null=ex.fresh_bool('tp_alloc_fails'),
                obj=o)


def tp_free(ex, st, n, args):
    return Opaque('void')


def matrix_new(ex, st, n, args):
    """contract of Matrix_New(nrows, ncols, id) (proved below on its body):
    NULL with an exception set, or a new matrix of exactly that shape and
    typecode with a buffer of nrows*ncols elements; requires the arguments
    to be what the caller computed without overflow"""
    r = toint(ex.ev(args[0], st))
    c = toint(ex.ev(args[1], st))
    i = toint(ex.ev(args[2], st))
    o = ex.new_obj('new', fresh=True)
    ok = z3.And(r.t >= 0, c.t >= 0, i.t >= 0, i.t <= 2,
                r.t * c.t <= 2**31 - 1)
    fails = ex.fresh_bool('Matrix_New_fails')
    ex.axioms.append(z3.Implies(z3.Not(ok), fails))
    ex.axioms.append(z3.Implies(z3.Not(fails), z3.And(
        o.ismat, o.nrows == r.t, o.ncols == c.t, o.id == i.t)))
    st.ghost['maybe_exc'] = fails
    return PtrV(None, 0, 'matrix', null=fails, obj=o)


def matrix_new_from_matrix(ex, st, n, args):
    src = ex.ev(args[0], st)
    i = toint(ex.ev(args[1], st))
    o = ex.new_obj('copy', fresh=True)
    fails = ex.fresh_bool('Matrix_NewFromMatrix_fails')
    if isinstance(src, PtrV) and src.obj is not None:
        s = src.obj
        ex.axioms.append(z3.Implies(z3.Not(fails), z3.And(
            o.ismat, o.nrows == s.nrows, o.ncols == s.ncols, o.id == i.t)))
    exc_if(st, fails, 'PyExc_MemoryError')
    return PtrV(None, 0, 'matrix', null=fails, obj=o)


def convert_mtx_alloc(ex, st, n, args):
    """convert_mtx_alloc(src, id): src->buffer itself when src has typecode
    id, else NULL or a fresh block of LGT(src) elements of typecode id"""
    src = ex.ev(args[0], st)
    i = toint(ex.ev(args[1], st))
    s = src.obj
    same = s.id == i.t
    d = ex.decide(st, same)
    if d is None:
        from engine.cvc.exec import NeedFork
        raise NeedFork(same)
    if d:
        loc = LObjField(s, 'buffer', 'void *')
        return ex.read_objfield(loc, st, n)
    r = Region('malloc', 'converted(%s)' % s.name, s.nrows * s.ncols *
               esize(i.t))
    return PtrV(r, 0, 'void', null=ex.fresh_bool('convert_alloc_fails'))


def writefield(ex, st, loc, v, n):
    """typestate obligations on writes to matrix fields"""
    o = loc.obj
    if loc.sp or not hasattr(o, 'ismat'):
        return
    if loc.name in ('buffer', 'id'):
        exp = z3.Int(o.name + '.ob_exports')
        ov = st.ghost.get(('field', o.name, 'ob_exports', False))
        if isinstance(ov, IntV):
            exp = ov.t
        if not o.extra.get('fresh_alloc'):
            if loc.name == 'id':
                ex.oblige(st, 'typecode-preserved', toint(v).t == o.id, n,
                          text='store to %s->id keeps the typecode' % o.name)
            ex.oblige(st, 'export-typestate', exp <= 0, n,
                      text='%s->%s is not replaced while the buffer is '
                      'exported (ob_exports > 0)' % (o.name, loc.name))


def c_free_checked(ex, st, n, args):
    """free(): freeing a matrix' own buffer requires ob_exports == 0"""
    p = ex.ev(args[0], st)
    if isinstance(p, PtrV) and p.region is not None and \
            p.region.kind == 'matbuf':
        o = p.region.owner
        if not o.extra.get('fresh_alloc'):
            exp = z3.Int(o.name + '.ob_exports')
            ex.oblige(st, 'export-typestate', exp <= 0, n,
                      text='the buffer of %s is not freed while it is '
                      'exported (ob_exports > 0)' % o.name)
    return Opaque('void')


def py_not_implemented(ex, st, n):
    return PtrV(None, 0, 'PyObject', obj=ex.exc_obj('Py_NotImplemented'))


COMMON = {
    'PyLong_AsLong': pylong_aslong, 'PyTuple_Size': pytuple_size,
    'PyTuple_GET_ITEM': pytuple_getitem, 'PyTuple_GetItem': pytuple_getitem,
    'num2PyObject[]': num2pyobject, 'write_num[]': write_num,
    'convert_num[]': convert_num, 'mtx_rem[]': mtx_op, 'get_id': get_id,
    'axpy[]': axpy_tbl, 'scal[]': scal_tbl, 'div_array[]': div_array_tbl,
    'gemm[]': gemm_tbl,
    'global:Zero': lambda ex, st, n: ArrV([StructV('number'), StructV(
        'number'), StructV('number')]),
    'global:MinusOne': lambda ex, st, n: ArrV([StructV('number'), StructV(
        'number'), StructV('number')]),
    'global:One': lambda ex, st, n: ArrV([StructV('number'), StructV(
        'number'), StructV('number')]),
    '.tp_alloc': tp_alloc, '.tp_free': tp_free, 'Matrix_New': matrix_new,
    'Matrix_NewFromMatrix': matrix_new_from_matrix,
    'convert_mtx_alloc': convert_mtx_alloc, 'writefield': writefield,
    'free': c_free_checked,
    'global:E_SIZE': lambda ex, st, n: ArrV([IntV(8), IntV(8), IntV(16)]),
    'global:_Py_NotImplementedStruct': py_not_implemented,
    'global:FMT_STR': lambda ex, st, n: ArrV([StrV('l'), StrV('d'),
                                              StrV('Zd')]),
    'global:err_mtx_list2matrix': lambda ex, st, n: ArrV([
        StrV('not an integer list'), StrV('not a floating point list'),
        StrV('not a complex floating point list')]),
    'PyErr_BadInternalCall': lambda ex, st, n, a: (
        setattr(st, 'exc', 'PyExc_SystemError') or Opaque('void')),
    '_PyErr_BadInternalCall': lambda ex, st, n, a: (
        setattr(st, 'exc', 'PyExc_SystemError') or Opaque('void')),
    '__assert_fail': lambda ex, st, n, a: Opaque('void'),
}


# ------------------------------------------------------------------ inits
def self_matrix(ex, st, p, name='self'):
    o = ex.new_obj(name)
    ex.axioms.append(o.ismat)
    exp = z3.Int(o.name + '.ob_exports')
    ex.axioms.append(exp >= 0)
    st.vars[p['id']] = PtrV(None, 0, 'matrix', obj=o)
    return o


def init_self_args(ex, st, params):
    """(matrix *self, PyObject *args[, ...])"""
    self_matrix(ex, st, params[0])
    for p in params[1:]:
        t = CT(p['ty'])
        if t.kind == 'ptr':
            o = ex.new_obj(p['name'])
            st.vars[p['id']] = PtrV(None, 0, t.pointee, obj=o)
        elif t.kind == 'int':
            st.vars[p['id']] = ex.fresh_int(p['name'], 'int')
        else:
            st.vars[p['id']] = Opaque(p['name'])


def init_set_size(ex, st, params):
    self_matrix(ex, st, params[0])
    o = ex.new_obj('value')
    st.vars[params[1]['id']] = PtrV(None, 0, 'PyObject', obj=o,
                                    null=ex.fresh_bool('value_is_NULL'))
    st.vars[params[2]['id']] = NULL


def init_ints(ex, st, params):
    for p in params:
        st.vars[p['id']] = ex.fresh_int(p['name'], 'int')


def init_getbuf(ex, st, params):
    self_matrix(ex, st, params[0])
    r = Region('struct', 'view', None)
    st.mem[r.uid] = StructV('Py_buffer')
    st.vars[params[1]['id']] = PtrV(r, 0, 'Py_buffer')
    st.ghost['view_region'] = r
    if len(params) > 2:
        st.vars[params[2]['id']] = ex.fresh_int('flags', 'int')


def init_binary(ex, st, params):
    """(PyObject *self, PyObject *other[, int inplace])"""
    o = ex.new_obj('self')
    st.vars[params[0]['id']] = PtrV(None, 0, 'PyObject', obj=o)
    exp = z3.Int(o.name + '.ob_exports')
    ex.axioms.append(exp >= 0)
    o2 = ex.new_obj('other')
    st.vars[params[1]['id']] = PtrV(None, 0, 'PyObject', obj=o2)
    if len(params) > 2:
        ip = ex.fresh_int('inplace', 'int')
        st.vars[params[2]['id']] = ip
        # the in-place number slots are only invoked with a matrix as the
        # left operand (CPython dispatches nb_inplace_* on type(self))
        ex.axioms.append(z3.Implies(ip.t != 0, o.ismat))
        ex.trusted.add('precondition: the in-place variant of a binary '
                       'operator body is entered with a matrix as self')


# ------------------------------------------------------------------ posts
def mk_ob(ex, extra_obs):
    def ob(kind, pc, goal, text, line=0):
        extra_obs.append(Oblig('%s:%s:%s' % (ex.fname, kind, text), kind,
                               list(pc), z3.simplify(goal) if not isinstance(
                                   goal, bool) else z3.BoolVal(goal), text,
                               line))
    return ob


# ------------------------------------------------ indexed assignment
def det_bool(st, n, name):
    """a Bool whose name depends only on the call site and on how often the
    path has passed it: a statement re-executed after a fork regenerates the
    same symbol"""
    key = ('detbool', name, n.get('line'), (n.get('off') or (0, 0))[0])
    cnt = st.ghost.get(key, 0)
    st.ghost[key] = cnt + 1
    return z3.Bool('%s@%s.%s#%d' % (name, key[2], key[3], cnt))


def create_indexlist(ex, st, n, args):
    """Contract of create_indexlist(dim, A), proved on its own body
    (post_indexlist below, obligation indexlist-postcondition): NULL with
    IndexError/TypeError/MemoryError set, or an 'i' matrix every element e
    of which satisfies -dim <= e < dim.  For a matrix argument the result is
    the argument itself."""
    if st.pure:
        raise Impure()
    dim = toint(ex.ev(args[0], st)).t
    a = ex.ev(args[1], st)
    ex.trusted.add('callee contract create_indexlist(dim, A): NULL with an '
                   "exception, or an 'i' matrix with all elements in "
                   '[-dim, dim) (proved on its body: indexlist-postcondition)')
    if not isinstance(a, PtrV) or a.obj is None:
        raise Unsupported('create_indexlist of %r' % (a,))
    fails = det_bool(st, n, 'create_indexlist_fails')
    d = ex.decide(st, fails)
    if d is None:
        raise NeedFork(fails)
    if d:
        st.exc = 'PyExc_IndexError'
        st.ghost['exc_choice'] = ('PyExc_IndexError', 'PyExc_TypeError',
                                  'PyExc_MemoryError')
        return NULL
    dm = ex.decide(st, a.obj.ismat)
    if dm is None:
        raise NeedFork(a.obj.ismat)
    if dm:
        o = a.obj
        st.pc.append(o.id == 0)
        me = ex.objs.get('self')
        if me is not None and o is not me and \
                ex.cfg.get('index_may_alias', True):
            # the index argument may be the indexed matrix itself (A[A] = c)
            same = det_bool(st, n, 'index_is_self')
            ds = ex.decide(st, same)
            if ds is None:
                raise NeedFork(same)
            if ds:
                st.pc.append(z3.And(me.id == 0, o.nrows == me.nrows,
                                    o.ncols == me.ncols))
                st.ghost['alias_self'] = st.ghost.get('alias_self', ()) + (
                    o.name,)
                o = me
    else:
        o = ex.new_obj('indexlist', fresh=True)
        st.pc.append(z3.And(o.ismat, o.id == 0, o.ncols == 1, o.nrows >= 0,
                            z3.Not(o.issp)))
        islong = a.obj.extra.get('islong')
        if islong is not None:
            st.pc.append(z3.Implies(islong, o.nrows == 1))
    r = o.buffer_region()
    st.ghost[('elem_inv', r.uid)] = (lambda e, dim=dim: z3.And(e >= -dim,
                                                              e < dim))
    lists = list(st.ghost.get('indexlists', []))
    lists.append((r, dim, o))
    st.ghost['indexlists'] = lists
    return PtrV(None, 0, 'matrix', obj=o)


def write_num_indexed(ex, st, n, args):
    """write_num[id] as used by indexed assignment: besides the bounds, the
    element written is the documented one: A[I[i]] / A[I[i], J[j]] with
    negative indices counted from the end, column-major"""
    r = write_num(ex, st, n, args)
    dst = ex.ev(args[1], st)
    idx = toint(ex.ev(args[2], st)).t
    loads_before = {k_: v for k_, v in st.ghost.items() if isinstance(
        k_, tuple) and k_ and k_[0] == 'last_load'}
    if isinstance(dst, PtrV) and dst.region is not None:
        # a store into a buffer ends what was known about its elements
        st.ghost.pop(('elem_inv', dst.region.uid), None)
        st.ghost.pop(('last_load', dst.region.uid), None)
    me = ex.objs.get('self')
    lists = st.ghost.get('indexlists', [])
    if me is None or not isinstance(dst, PtrV) or dst.region is not \
            me.buffer_region() or not lists:
        return r

    def wrap(e, m):
        return z3.If(e >= 0, e, m + e)
    loads = [(loads_before.get(('last_load', reg.uid)), dim)
             for reg, dim, _ in lists]
    if any(l is None for l, _ in loads):
        return r
    if len(lists) == 1:
        want = wrap(loads[0][0], loads[0][1])
        text = 'A[I] = ... writes element I[k] (counted from the end when ' \
            'negative)'
    else:
        want = wrap(loads[-2][0], me.nrows) + wrap(loads[-1][0], me.ncols) \
            * me.nrows
        text = 'A[I,J] = ... writes element (I[i], J[j]) of the column-major' \
            ' array (negative indices counted from the end)'
    ex.oblige(st, 'index-address', idx == want, n, text=text)
    return r


def write_num_gather(ex, st, n, args):
    """write_num[id] as used by indexing with index lists: the element read
    from the indexed matrix is the documented one"""
    r = write_num(ex, st, n, args)
    src = ex.ev(args[3], st)
    j = toint(ex.ev(args[4], st)).t
    me = ex.objs.get('self')
    lists = st.ghost.get('indexlists', [])
    if me is None or not isinstance(src, PtrV) or src.region is not \
            me.buffer_region() or not lists:
        return r

    def wrap(e, m):
        return z3.If(e >= 0, e, m + e)
    loads = [(st.ghost.get(('last_load', reg.uid)), dim)
             for reg, dim, _ in lists]
    if any(l is None for l, _ in loads):
        return r
    if len(lists) == 1:
        want = wrap(loads[0][0], loads[0][1])
        text = 'A[I] reads element I[k] (counted from the end when negative)'
    else:
        want = wrap(loads[-2][0], me.nrows) + wrap(loads[-1][0], me.ncols) \
            * me.nrows
        text = 'A[I,J] reads element (I[i], J[j]) of the column-major array'
    ex.oblige(st, 'index-address', j == want, n, text=text)
    return r


def slice_get_indices(ex, st, n, args):
    """PySlice_GetIndicesEx(slice, length, &start, &stop, &step, &lgt):
    -1 with an exception, or 0 and: step != 0, lgt >= 0, and for every
    0 <= k < lgt the index start + k*step lies in [0, length) (CPython
    documentation: the indices of the slice clipped to a sequence of that
    length)"""
    if st.pure:
        raise Impure()
    length = toint(ex.ev(args[1], st)).t
    outs = [ex.ev(a, st) for a in args[2:6]]
    fails = det_bool(st, n, 'slice_indices_fail')
    d = ex.decide(st, fails)
    if d is None:
        raise NeedFork(fails)
    if d:
        st.exc = 'PyExc_ValueError'
        return IntV(z3.IntVal(-1), 'int')
    key = ('slice', n.get('line'), (n.get('off') or (0, 0))[0])
    cnt = st.ghost.get(key, 0)
    st.ghost[key] = cnt + 1
    tag = '%s.%s#%d' % (key[1], key[2], cnt)
    start, stop, step, lgt = (z3.Int('slice_%s@%s' % (nm, tag))
                              for nm in ('start', 'stop', 'step', 'len'))
    k = z3.Int('k')
    st.pc.append(z3.And(step != 0, lgt >= 0, lgt <= length,
                        start >= -1, start <= length))
    # the defining property of the clipped slice, as a quantified fact and
    # (for the solver's benefit) at the two ends
    st.pc.append(z3.ForAll([k], z3.Implies(
        z3.And(k >= 0, k < lgt),
        z3.And(start + k * step >= 0, start + k * step < length))))
    st.pc.append(z3.Implies(lgt > 0, z3.And(
        start >= 0, start < length, start + (lgt - 1) * step >= 0,
        start + (lgt - 1) * step < length)))
    for p_, v_ in zip(outs, (start, stop, step, lgt)):
        if isinstance(p_, PtrV):
            ex.store_through(p_, IntV(v_, 'long'), st, n)
    sl = list(st.ghost.get('slices', []))
    sl.append({'start': start, 'step': step, 'len': lgt, 'dim': length})
    st.ghost['slices'] = sl
    ex.trusted.add('PySlice_GetIndicesEx: every index start + k*step, '
                   '0 <= k < slicelength, lies in [0, length) (CPython '
                   'documentation)')
    return IntV(z3.IntVal(0), 'int')


def slice_unpack(ex, st, n, args):
    """PySlice_Unpack(slice, &start, &stop, &step): -1 with an exception, or
    0 with the raw members (step != 0)"""
    if st.pure:
        raise Impure()
    outs = [ex.ev(a, st) for a in args[1:4]]
    fails = det_bool(st, n, 'slice_unpack_fails')
    d = ex.decide(st, fails)
    if d is None:
        raise NeedFork(fails)
    if d:
        st.exc = 'PyExc_ValueError'
        return IntV(z3.IntVal(-1), 'int')
    key = ('sliceu', n.get('line'), (n.get('off') or (0, 0))[0])
    cnt = st.ghost.get(key, 0)
    st.ghost[key] = cnt + 1
    tag = '%s.%s#%d' % (key[1], key[2], cnt)
    vals = [z3.Int('raw_%s@%s' % (nm, tag)) for nm in ('start', 'stop',
                                                        'step')]
    st.pc.append(vals[2] != 0)
    for p_, v_ in zip(outs, vals):
        if isinstance(p_, PtrV):
            ex.store_through(p_, IntV(v_, 'long'), st, n)
    return IntV(z3.IntVal(0), 'int')


def slice_adjust(ex, st, n, args):
    """PySlice_AdjustIndices(length, &start, &stop, step) -> slicelength:
    clips start/stop; afterwards every index start + k*step, 0 <= k <
    slicelength, lies in [0, length) (CPython documentation)"""
    if st.pure:
        raise Impure()
    length = toint(ex.ev(args[0], st)).t
    pstart, pstop = ex.ev(args[1], st), ex.ev(args[2], st)
    step = toint(ex.ev(args[3], st)).t
    key = ('slicea', n.get('line'), (n.get('off') or (0, 0))[0])
    cnt = st.ghost.get(key, 0)
    st.ghost[key] = cnt + 1
    tag = '%s.%s#%d' % (key[1], key[2], cnt)
    start, stop, lgt = (z3.Int('slice_%s@%s' % (nm, tag))
                        for nm in ('start', 'stop', 'len'))
    k = z3.Int('k')
    st.pc.append(z3.And(lgt >= 0, z3.Implies(length >= 0, lgt <= length),
                        start >= -1, start <= length, stop >= -1,
                        stop <= length))
    # the defining property (for all 0 <= k < lgt: 0 <= start + k*step <
    # length) is not put into the path condition as a quantified formula
    # (nonlinear patterns make the solver's answers depend on symbol names);
    # it is instantiated at the two ends here and at every loop counter by
    # the loop rule (st.ghost['forall'] below)
    st.pc.append(z3.Implies(lgt > 0, z3.And(
        start >= 0, start < length, start + (lgt - 1) * step >= 0,
        start + (lgt - 1) * step < length)))
    if isinstance(pstart, PtrV):
        ex.store_through(pstart, IntV(start, 'long'), st, n)
    if isinstance(pstop, PtrV):
        ex.store_through(pstop, IntV(stop, 'long'), st, n)
    sl = list(st.ghost.get('slices', []))
    sl.append({'start': start, 'step': step, 'len': lgt, 'dim': length})
    st.ghost['slices'] = sl
    lemmas = []
    for o_ in ex.objs.values():
        # when the slice ranges over the columns of a matrix: the product of
        # an in-range column index with the number of rows is bounded (a
        # valid consequence, stated to spare the solver a nonlinear step)
        if hasattr(o_, 'ncols') and z3.eq(z3.simplify(length),
                                          z3.simplify(o_.ncols)):
            lemmas.append(o_)

    def inst(k_, start=start, step=step, lgt=lgt, length=length,
             lemmas=tuple(lemmas)):
        x_ = start + k_ * step
        facts = [x_ >= 0, x_ < length]
        for o_ in lemmas:
            facts.append(z3.Implies(o_.nrows >= 0, z3.And(
                x_ * o_.nrows >= 0,
                x_ * o_.nrows <= (o_.ncols - 1) * o_.nrows)))
        return z3.Implies(z3.And(k_ >= 0, k_ < lgt), z3.And(facts))
    st.ghost['forall'] = tuple(st.ghost.get('forall', ())) + (inst,)
    ex.trusted.add('PySlice_AdjustIndices: every index start + k*step, '
                   '0 <= k < slicelength, lies in [0, length) (CPython '
                   'documentation)')
    return IntV(lgt, 'long')


def matrix_from_object(idarg):
    def h(ex, st, n, args):
        """Matrix_NewFromSequence(x, id) / Matrix_NewFromPyBuffer(x, id,
        &ndim): NULL with an exception, or a new matrix (any size)"""
        if st.pure:
            raise Impure()
        fails = det_bool(st, n, 'conversion_fails')
        d = ex.decide(st, fails)
        if d is None:
            raise NeedFork(fails)
        if d:
            st.exc = 'PyExc_TypeError'
            return NULL
        o = ex.new_obj('converted', fresh=True)
        st.pc.append(z3.And(o.ismat, z3.Not(o.issp)))
        idv = toint(ex.ev(args[idarg], st)).t
        st.pc.append(z3.Implies(idv >= 0, o.id == idv))
        if len(args) > 2:
            p = ex.ev(args[2], st)
            if isinstance(p, PtrV):
                nd = ex.fresh_int('ndim', 'int')
                st.pc.append(z3.And(nd.t >= 1, nd.t <= 2))
                ex.store_through(p, nd, st, n)
        return PtrV(None, 0, 'matrix', obj=o)
    return h


def check_buffer(ex, st, n, args):
    p = ex.ev(args[0], st)
    if isinstance(p, PtrV) and p.obj is not None:
        return BoolV(z3.Bool('hasbuffer(%s)' % p.obj.name))
    raise Unsupported('PyObject_CheckBuffer of %r' % (p,))


def tuple_pack(ex, st, n, args):
    """PyTuple_Pack(k, o1, ..., ok): NULL (MemoryError) or a new tuple of
    exactly these items"""
    if st.pure:
        raise Impure()
    k = z3.simplify(toint(ex.ev(args[0], st)).t)
    if not z3.is_int_value(k) or k.as_long() != len(args) - 1:
        raise Unsupported('PyTuple_Pack with a symbolic count')
    items = [ex.ev(a, st) for a in args[1:]]
    fails = det_bool(st, n, 'PyTuple_Pack_fails')
    d = ex.decide(st, fails)
    if d is None:
        raise NeedFork(fails)
    if d:
        st.exc = 'PyExc_MemoryError'
        return NULL
    t = ex.new_obj('packed', fresh=True)
    t.extra['istuple'] = z3.BoolVal(True)
    t.extra['tuplen'] = z3.IntVal(len(items))
    for i, it in enumerate(items):
        if not isinstance(it, PtrV) or it.obj is None:
            raise Unsupported('PyTuple_Pack of %r' % (it,))
        t.extra['item%d' % i] = it.obj
    return PtrV(None, 0, 'PyObject', obj=t)


def noalias_callee(ex, st, n, args):
    """contract of matrix_ass_subscr_noalias(self, args, val), proved on its
    body under the same precondition: requires that neither args nor, for a
    pair, one of its two items is the matrix itself; returns 0 or -1 with an
    exception set"""
    if st.pure:
        raise Impure()
    me = ex.ev(args[0], st)
    a = ex.ev(args[1], st)
    if not isinstance(me, PtrV) or not isinstance(a, PtrV) or \
            me.obj is None or a.obj is None:
        raise Unsupported('matrix_ass_subscr_noalias of %r' % (a,))
    req = [z3.Not(ex.alias_bool(a.obj, me.obj)) if a.obj is not me.obj
           else z3.BoolVal(False)]
    ist = a.obj.extra.get('istuple', z3.Bool('istuple(%s)' % a.obj.name))
    ex.axioms.append(z3.Implies(a.obj.ismat, z3.Not(ist)))
    ln = a.obj.extra.setdefault('tuplen', z3.Int('len(%s)' % a.obj.name))
    for i in range(2):
        it = a.obj.extra.get('item%d' % i)
        if it is None:
            it = ex.new_obj('%s[%d]' % (a.obj.name, i))
            a.obj.extra['item%d' % i] = it
        same = z3.BoolVal(True) if it is me.obj else ex.alias_bool(it, me.obj)
        req.append(z3.Implies(z3.And(ist, ln == 2), z3.Not(same)))
    ex.oblige(st, 'extern-requires', z3.And(req), n,
              text='matrix_ass_subscr_noalias requires that no index '
              'argument is the assigned matrix itself')
    ok = det_bool(st, n, 'assignment_ok')
    d = ex.decide(st, ok)
    if d is None:
        raise NeedFork(ok)
    if not d:
        st.exc = 'PyExc_TypeError'
        return IntV(z3.IntVal(-1), 'int')
    return IntV(z3.IntVal(0), 'int')


def tuple_get_size(ex, st, n, args):
    return pytuple_size(ex, st, n, args)


def init_ass_subscr(ex, st, params):
    """(matrix *self, PyObject *args, PyObject *val)"""
    o = self_matrix(ex, st, params[0])
    a = ex.new_obj('args')
    st.vars[params[1]['id']] = PtrV(None, 0, 'PyObject', obj=a)
    v = ex.new_obj('val')
    st.vars[params[2]['id']] = PtrV(None, 0, 'PyObject', obj=v,
                                    null=ex.fresh_bool('val_is_NULL'))


def post_ass_subscr(ex, finished, extra_obs):
    ob = mk_ob(ex, extra_obs)
    nok = 0
    allowed = ('PyExc_TypeError', 'PyExc_IndexError',
               'PyExc_NotImplementedError', 'PyExc_MemoryError',
               'PyExc_ValueError')
    for st, kind, val in finished:
        if not isinstance(val, (IntV, BoolV)):
            continue
        pc = st.path()
        rv = toint(val).t
        if ex.check(pc, [rv == 0]) == z3.unsat:
            exc = st.exc
            if exc is None:
                for cond, name in st.ghost.get('exc_if', []):
                    if ex.check(pc, [z3.Not(cond)]) == z3.unsat:
                        exc = name
            ob('reject-exception', pc, z3.BoolVal(exc in allowed),
               'a failing indexed assignment raises TypeError, IndexError, '
               'NotImplementedError or MemoryError (got %s)' % exc)
        elif ex.check(pc, [rv != 0]) == z3.unsat:
            nok += 1
        # the right-hand side belongs to the caller: its size fields are
        # only rewritten when it is a temporary made by the conversion
        rhs = ex.objs.get('val')
        touched = [s_ for s_ in st.stores if s_[0].kind == 'objfield' and
                   s_[0].owner is rhs]
        ob('frame', pc, z3.BoolVal(not touched),
           'indexed assignment does not modify its right-hand side' + (
               ' (store to %s at line %s)' % (touched[0][0].name,
                                             touched[0][4]) if touched
               else ''))
    ob('covered', [], z3.BoolVal(nok > 0), 'a success path exists')
    return {'success_paths': nok}


def is_error(val):
    return val is NULL or (isinstance(val, PtrV) and val.obj is None and
                           val.region is None)


def field(ex, st, o, name, default):
    v = st.ghost.get(('field', o.name, name, False))
    if isinstance(v, IntV):
        return v.t
    return default


def post_subscr(ex, finished, extra_obs):
    """integer and (integer, integer) indexing of a dense matrix"""
    ob = mk_ob(ex, extra_obs)
    o = ex.objs['self']
    L = o.nrows * o.ncols
    n_int = n_pair = 0
    for st, kind, val in finished:
        pc = st.path()
        a = ex.objs.get('args')
        i = a.extra.get('pyint') if a is not None else None
        islong = a.extra.get('islong') if a is not None else None
        # one integer
        if islong is not None and ex.check(pc, [z3.Not(islong)]) == z3.unsat \
                and i is not None:
            n_int += 1
            inr = z3.And(i >= -L, i < L)
            if is_error(val):
                ob('index-reject', pc, z3.And(z3.Not(inr), z3.BoolVal(
                    st.exc == 'PyExc_IndexError')),
                   'A[i] raises only for i outside [-len, len) and then '
                   'raises IndexError (got %s)' % st.exc)
            else:
                el = val.obj.extra.get('element') if val.obj else None
                ob('index-accept', pc, inr, 'A[i] is accepted only for '
                   '-len <= i < len')
                if el is not None:
                    ob('index-address', pc, el[1] == z3.If(i >= 0, i, L + i),
                       'A[i] returns element i (i >= 0) or len + i (i < 0)')
            continue
        i0 = ex.objs.get('arg0')
        i1 = ex.objs.get('arg1')
        if i0 is None or i1 is None:
            continue
        pi, pj = i0.extra.get('pyint'), i1.extra.get('pyint')
        l0, l1 = i0.extra.get('islong'), i1.extra.get('islong')
        if pi is None or pj is None or l0 is None or l1 is None:
            continue
        if ex.check(pc, [z3.Not(z3.And(l0, l1))]) != z3.unsat:
            continue
        n_pair += 1
        inr = z3.And(pi >= -o.nrows, pi < o.nrows, pj >= -o.ncols,
                     pj < o.ncols)
        if is_error(val):
            ob('index-reject', pc, z3.And(z3.Not(inr), z3.BoolVal(
                st.exc == 'PyExc_IndexError')),
               'A[i,j] raises only for an index outside its range and then '
               'raises IndexError (got %s)' % st.exc)
        else:
            el = val.obj.extra.get('element') if val.obj else None
            ob('index-accept', pc, inr, 'A[i,j] is accepted only for '
               '-m <= i < m and -n <= j < n (as Python integers)')
            if el is not None:
                wi = z3.If(pi >= 0, pi, o.nrows + pi)
                wj = z3.If(pj >= 0, pj, o.ncols + pj)
                ob('index-address', pc, el[1] == wi + o.nrows * wj,
                   'A[i,j] returns the element at wrap(i) + m*wrap(j)')
    ob('covered', [], z3.BoolVal(n_int > 0 and n_pair > 0),
       'both the one-integer and the two-integer paths were analysed')
    return {'int_paths': n_int, 'pair_paths': n_pair,
            'abandoned': getattr(ex, 'abandoned', [])}


def post_set_size(ex, finished, extra_obs):
    ob = mk_ob(ex, extra_obs)
    o = ex.objs['self']
    L = o.nrows * o.ncols
    nok = 0
    for st, kind, val in finished:
        pc = st.path()
        r = z3.simplify(toint(val).t) if val is not None else None
        if r is not None and z3.is_int_value(r) and r.as_long() == 0:
            nok += 1
            m = field(ex, st, o, 'nrows', o.nrows)
            n = field(ex, st, o, 'ncols', o.ncols)
            v = ex.objs.get('value')
            pm = v.extra['item0'].extra.get('pyint') if v and 'item0' in \
                v.extra else None
            pn = v.extra['item1'].extra.get('pyint') if v and 'item1' in \
                v.extra else None
            ob('valid-preserved', pc, z3.And(m >= 0, n >= 0, m * n == L),
               'after A.size = (m, n): m, n >= 0 and m*n equals the number '
               'of elements (valid(matrix) is preserved)')
            if pm is not None and pn is not None:
                ob('size-assigned', pc, z3.And(m == pm, n == pn),
                   'the stored size is the assigned Python tuple')
        else:
            ob('reject-exception', pc, z3.BoolVal(st.exc in (
                'PyExc_TypeError', 'PyExc_ValueError')),
               'a rejected size assignment raises TypeError/ValueError '
               '(got %s)' % st.exc)
            ob('reject-clean', pc, z3.BoolVal(not any(k[0] == 'field' for k
                                                      in st.ghost if
                                                      isinstance(k, tuple))),
               'a rejected size assignment leaves the matrix unchanged')
    ob('covered', [], z3.BoolVal(nok > 0), 'an accepting path exists')
    return {'accepting_paths': nok}


def post_matrix_new(ex, finished, extra_obs):
    ob = mk_ob(ex, extra_obs)
    nok = 0
    r_ = z3.Int('nrows')
    c_ = z3.Int('ncols')
    i_ = z3.Int('id')
    for st, kind, val in finished:
        pc = st.path()
        if is_error(val) or (isinstance(val, PtrV) and val.null is not None
                             and ex.check(pc, [z3.Not(val.null)]) ==
                             z3.unsat):
            continue
        nok += 1
        o = val.obj
        m = field(ex, st, o, 'nrows', None)
        n = field(ex, st, o, 'ncols', None)
        idv = field(ex, st, o, 'id', None)
        if m is None or n is None or idv is None:
            ob('constructor-postcondition', pc, False,
               'Matrix_New stores nrows, ncols and id')
            continue
        buf = st.ghost.get(('field', o.name, 'buffer', False))
        size_ok = z3.BoolVal(False)
        if isinstance(buf, PtrV) and buf.region is not None and \
                buf.region.size is not None:
            size_ok = buf.region.size == m * n * esize(idv)
        ob('constructor-postcondition', pc, z3.And(
            m == r_, n == c_, idv == i_, m >= 0, n >= 0, idv >= 0, idv <= 2,
            m * n <= 2**31 - 1, z3.Or(size_ok, m * n == 0)),
            'Matrix_New(nrows, ncols, id) returns a valid matrix of exactly '
            'that shape/typecode whose buffer holds nrows*ncols elements')
    ob('covered', [], z3.BoolVal(nok > 0), 'a success path exists')
    return {'success_paths': nok}


def post_getbuf(ex, finished, extra_obs):
    ob = mk_ob(ex, extra_obs)
    o = ex.objs['self']
    nok = 0
    for st, kind, val in finished:
        pc = st.path()
        r = z3.simplify(toint(val).t)
        if not (z3.is_int_value(r) and r.as_long() == 0):
            continue
        nok += 1
        vr = st.ghost['view_region']
        view = st.mem.get(vr.uid)
        f = view.fields if isinstance(view, StructV) else {}
        buf = f.get('buf')
        ob('export-buffer', pc, z3.BoolVal(isinstance(buf, PtrV) and
                                          buf.region is o.buffer_region())
           if True else False,
           'view->buf is the matrix\' own storage (memory is shared)')
        ln = f.get('len')
        its = f.get('itemsize')
        if isinstance(ln, IntV) and isinstance(its, IntV):
            ob('export-layout', pc, z3.And(
                ln.t == o.nrows * o.ncols * esize(o.id),
                its.t == esize(o.id)),
                'view->len and view->itemsize describe nrows*ncols elements '
                'of the typecode')
        else:
            ob('export-layout', pc, False, 'view->len / itemsize are set')
        nd = f.get('ndim')
        ob('export-layout', pc, isinstance(nd, IntV) and
           z3.simplify(nd.t).eq(z3.IntVal(2)), 'view->ndim == 2')
        sh = st.ghost.get(('arrfield', o.name, 'shape'))
        sd = st.ghost.get(('arrfield', o.name, 'strides'))
        if sh and sd and len(sh) == 2 and len(sd) == 2:
            ob('export-layout', pc, z3.And(
                sh[0].t == o.nrows, sh[1].t == o.ncols,
                sd[0].t == esize(o.id), sd[1].t == o.nrows * esize(o.id)),
                'shape = (nrows, ncols), strides = (itemsize, '
                'nrows*itemsize): column-major')
        else:
            ob('export-layout', pc, False, 'shape and strides are set')
        exp = field(ex, st, o, 'ob_exports', None)
        ob('export-count', pc, exp is not None and exp == z3.Int(
            o.name + '.ob_exports') + 1,
            'ob_exports is incremented by one')
    ob('covered', [], z3.BoolVal(nok > 0), 'a success path exists')
    return {'success_paths': nok}


def post_inplace(ex, finished, extra_obs):
    """in-place binary operator bodies: normal return of `self` implies the
    typecode is unchanged (typecode-preserved / export-typestate obligations
    are generated at the stores)"""
    ob = mk_ob(ex, extra_obs)
    o = ex.objs['self']
    n = 0
    other = ex.objs.get('other')
    for st, kind, val in finished:
        if isinstance(val, PtrV) and val.obj is o:
            n += 1
            idv = field(ex, st, o, 'id', o.id)
            if other is not None:
                # documented rule: an in-place operation is allowed only when
                # the result type (the larger operand typecode; at least 'd'
                # for true division) is the type of the left operand
                nid = other.extra.setdefault('numid', z3.Int(
                    'numid(%s)' % other.name))
                oid = z3.If(other.ismat, other.id, nid)
                res = z3.If(o.id >= oid, o.id, oid)
                if ex.fname == 'matrix_div_generic':
                    res = z3.If(res >= 1, res, 1)
                ob('inplace-type-rule', st.path(), res == o.id,
                   'an in-place operator is accepted only when the result '
                   'type is the type of the left operand')
            ob('typecode-preserved', st.path(), idv == o.id,
               'an in-place operator returning self leaves the typecode '
               'unchanged')
            ob('export-typestate', st.path(), z3.BoolVal(
                ('field', o.name, 'buffer', False) not in st.ghost and not
                any(k_[0] == 'freed' for k_ in st.ghost if isinstance(
                    k_, tuple)) and o.buffer_region().uid not in
                st.ghost.get('freed', {})),
                'an in-place operator returning self neither replaces nor '
                'frees the buffer (an exported view stays valid and shares '
                'memory)')
    return {'returns_self': n}


def post_addsub(ex, finished, extra_obs):
    """A + B, A - B and their in-place forms (doc/source/matrices.rst): two
    matrices must have the same size unless one of them is 1 by 1 (for the
    in-place forms: unless B is 1 by 1, the size of A never changes); the
    result has the size of the operand that is not 1 by 1 and typecode
    max(tc(A), tc(B))."""
    summ = post_inplace(ex, finished, extra_obs)
    ob = mk_ob(ex, extra_obs)
    a, b = ex.objs['self'], ex.objs['other']
    both = z3.And(a.ismat, b.ismat)
    same = z3.And(a.nrows == b.nrows, a.ncols == b.ncols)
    a1 = a.nrows * a.ncols == 1
    b1 = b.nrows * b.ncols == 1
    nacc = 0
    for st, kind, val in finished:
        if is_error(val) or not isinstance(val, PtrV) or val.obj is None:
            continue
        if val.obj.extra.get('exc') == 'Py_NotImplemented':
            continue
        pc = st.path()
        r = val.obj
        inplace = r is a
        if val.null is not None:
            pc = pc + [z3.Not(val.null)]
        nacc += 1
        if inplace:
            ob('shape-rule', pc, z3.Implies(both, z3.Or(same, b1)),
               'in-place +/-: accepted only for equal sizes or a 1 by 1 '
               'right operand')
        else:
            ob('shape-rule', pc, z3.Implies(both, z3.Or(same, a1, b1)),
               '+/-: accepted only for equal sizes or a 1 by 1 operand')
            ob('shape-rule', pc, z3.Implies(both, z3.And(
                r.nrows == z3.If(z3.And(a1, z3.Not(same)), b.nrows, a.nrows),
                r.ncols == z3.If(z3.And(a1, z3.Not(same)), b.ncols, a.ncols),
                r.id == z3.If(a.id >= b.id, a.id, b.id))),
               '+/-: the result has the size of the operand that is not 1 '
               'by 1 and the larger typecode')
    ob('covered', [], z3.BoolVal(nacc > 0), 'an accepting path exists')
    summ['accepting'] = nacc
    return summ


def post_mul(ex, finished, extra_obs):
    """A * B and A *= B: scalar product when an operand is 1 by 1, otherwise
    the matrix product, which needs A.size[1] == B.size[0]; the in-place form
    never changes the size of A."""
    summ = post_inplace(ex, finished, extra_obs)
    ob = mk_ob(ex, extra_obs)
    a, b = ex.objs['self'], ex.objs['other']
    both = z3.And(a.ismat, b.ismat)
    a1 = a.nrows * a.ncols == 1
    b1 = b.nrows * b.ncols == 1
    conf = a.ncols == b.nrows
    nacc = 0
    for st, kind, val in finished:
        if is_error(val) or not isinstance(val, PtrV) or val.obj is None:
            continue
        if val.obj.extra.get('exc') == 'Py_NotImplemented':
            continue
        pc = st.path()
        r = val.obj
        if val.null is not None:
            pc = pc + [z3.Not(val.null)]
        nacc += 1
        if r is a:
            ob('shape-rule', pc, z3.Implies(both, z3.Or(b1, z3.And(
                conf, b.ncols == a.ncols))),
               'in-place *: accepted only for a 1 by 1 right operand or a '
               'product that has the size of A')
        else:
            ob('shape-rule', pc, z3.Implies(both, z3.Or(a1, b1, conf)),
               '*: accepted only for a 1 by 1 operand or conforming sizes')
            ob('shape-rule', pc, z3.Implies(both, z3.And(
                r.nrows == z3.If(z3.And(a1, z3.Not(conf)), b.nrows,
                                 z3.If(z3.And(b1, z3.Not(conf)), a.nrows,
                                       a.nrows)),
                r.ncols == z3.If(z3.And(a1, z3.Not(conf)), b.ncols,
                                 z3.If(z3.And(b1, z3.Not(conf)), a.ncols,
                                       b.ncols)),
                r.id == z3.If(a.id >= b.id, a.id, b.id))),
               '*: the result has the size of the product (of the other '
               'operand for a 1 by 1 factor) and the larger typecode')
    ob('covered', [], z3.BoolVal(nacc > 0), 'an accepting path exists')
    summ['accepting'] = nacc
    return summ


FUNCS = {
    'Matrix_New': {'init': init_ints, 'post': post_matrix_new,
                   'externs': {k: v for k, v in COMMON.items() if k !=
                               'Matrix_New'}},
    'matrix_subscr': {'init': init_self_args, 'post': post_subscr,
                      'externs': None,
                      'config': {'index_may_alias': False,
                                 'allow_unsupported': [
                                     'Matrix_NewFromSequence',
                                     'spmatrix']}},
    'matrix_set_size': {'init': init_set_size, 'post': post_set_size,
                        'externs': COMMON},
    'matrix_buffer_getbuf': {'init': init_getbuf, 'post': post_getbuf,
                             'externs': COMMON},
    'matrix_rem_generic': {'init': init_binary, 'post': post_inplace,
                           'externs': COMMON},
    'matrix_add_generic': {'init': init_binary, 'post': post_addsub,
                           'externs': COMMON},
    'matrix_sub_generic': {'init': init_binary, 'post': post_addsub,
                           'externs': COMMON},
    'matrix_mul_generic': {'init': init_binary, 'post': post_mul,
                           'externs': COMMON},
    'matrix_div_generic': {'init': init_binary, 'post': post_inplace,
                           'externs': COMMON},
    'matrix_buffer_relbuf': {'init': init_getbuf, 'post': None,
                             'externs': COMMON},
    'matrix_ass_subscr': {
        'init': init_ass_subscr, 'post': post_ass_subscr,
        'externs': dict(COMMON, **{
            'matrix_ass_subscr_noalias': noalias_callee,
            'PyTuple_Pack': tuple_pack,
            'PyTuple_GET_SIZE': tuple_get_size})},
    'matrix_ass_subscr_noalias': {
        'init': init_ass_subscr, 'post': post_ass_subscr,
        'externs': dict(COMMON, **{
            'create_indexlist': create_indexlist,
            'write_num[]': write_num_indexed,
            'Matrix_NewFromSequence': matrix_from_object(1),
            'Matrix_NewFromPyBuffer': matrix_from_object(1),
            'PyObject_CheckBuffer': check_buffer}),
        # precondition (established by the wrapper, see noalias_callee): no
        # index argument is the matrix itself
        'config': {'index_may_alias': False,
                   'allow_unsupported': ['spmatrix', 'SP_', 'sparse']}},
    'Matrix_NewFromSequence': {'init': None, 'post': None,
                               'externs': COMMON},
    'Matrix_NewFromPyBuffer': {'init': None, 'post': None,
                               'externs': COMMON},
    'dense_concat': {'init': None, 'post': None, 'externs': COMMON},
}

# ------------------------------------------------ constructor from a sequence
def seq_size(ex, st, n, args):
    """PySequence_Size(x): the length (>= 0) or -1 with an exception"""
    p = ex.ev(args[0], st)
    if not isinstance(p, PtrV) or p.obj is None:
        raise Unsupported('PySequence_Size of %r' % (p,))
    ln = p.obj.extra.setdefault('seqlen', z3.Int('len(%s)' % p.obj.name))
    ex.axioms.append(ln >= -1)
    return IntV(ln, 'long')


def seq_fast(ex, st, n, args):
    """PySequence_Fast(x, msg): NULL (TypeError) or a list/tuple with the
    items of x (here: x itself as the item container)"""
    if st.pure:
        raise Impure()
    p = ex.ev(args[0], st)
    fails = det_bool(st, n, 'PySequence_Fast_fails')
    d = ex.decide(st, fails)
    if d is None:
        raise NeedFork(fails)
    if d:
        st.exc = 'PyExc_TypeError'
        return NULL
    ln = p.obj.extra.setdefault('seqlen', z3.Int('len(%s)' % p.obj.name))
    st.pc.append(ln >= 0)
    return PtrV(None, 0, 'PyObject', obj=p.obj)


def seq_fast_get_item(ex, st, n, args):
    """PySequence_Fast_GET_ITEM(seq, i): requires 0 <= i < len; the item is
    some object"""
    p = ex.ev(args[0], st)
    i = toint(ex.ev(args[1], st)).t
    ln = p.obj.extra.setdefault('seqlen', z3.Int('len(%s)' % p.obj.name))
    ex.oblige(st, 'deref', z3.And(i >= 0, i < ln), n,
              text='PySequence_Fast_GET_ITEM index inside the sequence')
    key = ('seqitem', p.obj.name, n.get('line'), (n.get('off') or (0, 0))[0])
    cnt = st.ghost.get(key, 0)
    st.ghost[key] = cnt + 1
    it = ex.objs.get('item@%s.%s#%d' % (key[2], key[3], cnt))
    if it is None:
        it = ex.new_obj('item@%s.%s#%d' % (key[2], key[3], cnt))
    return PtrV(None, 0, 'PyObject', obj=it)


def init_from_sequence(ex, st, params):
    o = ex.new_obj('x')
    st.vars[params[0]['id']] = PtrV(None, 0, 'PyObject', obj=o)
    idv = ex.fresh_int('id', 'int')
    ex.axioms.append(z3.And(idv.t >= -1, idv.t <= 2))
    ex.trusted.add('precondition of Matrix_NewFromSequence: -1 <= id <= 2 '
                   '(every caller passes a typecode id or -1)')
    st.vars[params[1]['id']] = idv


def post_from_sequence(ex, finished, extra_obs):
    """Matrix_NewFromSequence(x, id): NULL with an exception, or a len(x) by
    1 matrix; its typecode is id when id >= 0 (also for an empty sequence:
    pickling and copying rebuild matrices through this function)"""
    ob = mk_ob(ex, extra_obs)
    x = ex.objs['x']
    ln = x.extra.get('seqlen')
    idv = z3.Int('id')
    nok = 0
    for st, kind, val in finished:
        pc = st.path()
        if is_error(val):
            exc = st.exc
            if exc is None:
                for cond, name in st.ghost.get('exc_if', []):
                    if ex.check(pc, [z3.Not(cond)]) == z3.unsat:
                        exc = name
            if exc is None and st.ghost.get('maybe_exc') is not None:
                exc = 'PyExc_MemoryError'
            ob('reject-exception', pc, z3.BoolVal(exc is not None),
               'a NULL return has an exception set')
            continue
        if not isinstance(val, PtrV) or val.obj is None:
            continue
        if val.null is not None:
            pc = pc + [z3.Not(val.null)]
        nok += 1
        r = val.obj
        goal = z3.And(r.ismat, r.ncols == 1, z3.Implies(idv >= 0,
                                                      r.id == idv))
        if ln is not None:
            goal = z3.And(goal, r.nrows == ln)
        ob('constructor-postcondition', pc, goal,
           'Matrix_NewFromSequence(x, id) returns a len(x) by 1 matrix of '
           'typecode id (for id >= 0)')
    ob('covered', [], z3.BoolVal(nok > 0), 'a success path exists')
    return {'success_paths': nok}


FUNCS['Matrix_NewFromSequence'] = {
    'init': init_from_sequence, 'post': post_from_sequence,
    'externs': dict(COMMON, **{
        'PySequence_Size': seq_size, 'PySequence_Fast': seq_fast,
        'PySequence_Fast_GET_ITEM': seq_fast_get_item})}

# ------------------------------------------------ constructor from a buffer
FMT4 = ['l', 'd', 'Zd', 'i']


class FmtV:
    """the format string of an imported buffer: only compared with literals"""

    def __init__(self, name):
        self.name = name


def get_buffer(ex, st, n, args):
    """PyObject_GetBuffer(obj, view, PyBUF_FORMAT|PyBUF_STRIDES): -1 with an
    exception, or 0 with *view filled: ndim >= 0, shape[k] >= 0 and strides[k]
    for k < ndim, itemsize > 0, a format string, and buf such that
    buf + sum_k idx[k]*strides[k] is the address of element idx for every
    in-range multi-index"""
    if st.pure:
        raise Impure()
    view = ex.ev(args[1], st)
    if not isinstance(view, PtrV) or view.region is None:
        raise Unsupported('PyObject_GetBuffer into %r' % (view,))
    fails = det_bool(st, n, 'GetBuffer_fails')
    d = ex.decide(st, fails)
    if d is None:
        raise NeedFork(fails)
    if d:
        st.exc = 'PyExc_BufferError'
        return IntV(z3.IntVal(-1), 'int')
    nd = z3.Int('view.ndim')
    s0, s1 = z3.Int('view.shape0'), z3.Int('view.shape1')
    t0, t1 = z3.Int('view.stride0'), z3.Int('view.stride1')
    isz = z3.Int('view.itemsize')
    st.pc.append(z3.And(nd >= 0, nd <= 64, s0 >= 0, s1 >= 0, isz > 0))
    foreign = Region('foreign', 'exporter memory', None)
    st.mem[view.region.uid] = StructV('Py_buffer', {
        'ndim': IntV(nd, 'int'), 'itemsize': IntV(isz, 'long'),
        'len': IntV(isz * s0 * z3.If(nd == 2, s1, 1), 'long'),
        'format': FmtV('view.format'),
        'shape': ArrV([IntV(s0, 'long'), IntV(s1, 'long')]),
        'strides': ArrV([IntV(t0, 'long'), IntV(t1, 'long')]),
        'buf': PtrV(foreign, 0, 'void')})
    st.ghost['import'] = {'nd': nd, 's0': s0, 's1': s1, 't0': t0, 't1': t1}
    ex.trusted.add('buffer protocol: an exporter that honours '
                   'PyBUF_STRIDES describes every element address as buf + '
                   'sum idx[k]*strides[k] (CPython documentation)')
    return IntV(z3.IntVal(0), 'int')


def buffer_is_contiguous(ex, st, n, args):
    """PyBuffer_IsContiguous(view, order): for order 'F' true exactly when
    strides[0] == itemsize and strides[1] == shape[0]*itemsize (1-D: the
    first condition); 'C' and 'A' are not modelled"""
    imp = st.ghost.get('import')
    o = ex.ev(args[1], st)
    if imp is None:
        raise Unsupported('PyBuffer_IsContiguous without a known view')
    ov = z3.simplify(toint(o).t)
    if not z3.is_int_value(ov) or ov.as_long() != ord('F'):
        raise Unsupported("PyBuffer_IsContiguous order other than 'F'")
    isz = z3.Int('view.itemsize')
    return BoolV(z3.And(imp['t0'] == isz, z3.Or(
        imp['nd'] != 2, imp['t1'] == imp['s0'] * isz)))


def memcpy_import(ex, st, n, args):
    """memcpy from the exporter's memory into the matrix under construction:
    allowed when it copies exactly the elements in column-major order, i.e.
    the exporter is Fortran-contiguous with items of the matrix' element
    size"""
    d = ex.ev(args[0], st)
    s_ = ex.ev(args[1], st)
    k = toint(ex.ev(args[2], st)).t
    imp = st.ghost.get('import')
    if imp is not None and isinstance(s_, PtrV) and s_.region is not None \
            and s_.region.kind == 'foreign' and isinstance(d, PtrV) and \
            d.region is not None and d.region.owner is not None and getattr(
                d.region.owner, 'fresh', False):
        es = z3.If(d.region.owner.id == 2, 16, 8)
        nd, s0, s1, t0, t1 = (imp[x] for x in ('nd', 's0', 's1', 't0', 't1'))
        ncols = z3.If(nd == 2, s1, 1)
        ex.bounds_oblig(d, k, st, n, 'memcpy destination: ' +
                        cast_mod.src_of(ex.tu, n))
        ex.oblige(st, 'import-address', z3.And(
            d.off == 0, s_.off == 0, k == s0 * ncols * es, t0 == es,
            z3.Or(nd != 2, t1 == s0 * es)), n,
            text='a bulk copy from the exporter is column-major with items '
            'of the element size: ' + cast_mod.src_of(ex.tu, n))
        st.stores.append((d.region, d.off, k, list(st.path()),
                          n.get('line')))
        return d
    from contracts.c.extern_cpython import EXTERNS as _E
    return _E['memcpy'](ex, st, n, args)


def c_strcmp(ex, st, n, args):
    a = ex.ev(args[0], st)
    b = ex.ev(args[1], st)
    if isinstance(a, StrV) and isinstance(b, StrV):
        return IntV(z3.IntVal(0 if a.s == b.s else 1), 'int')
    if isinstance(b, FmtV):
        a, b = b, a
    if isinstance(a, FmtV) and isinstance(b, StrV):
        eq = z3.Bool('%s=="%s"' % (a.name, b.s))
        key = ('fmtlits', a.name)
        seen = ex.site_counts.setdefault(key, {})
        for lit, e2 in seen.items():
            if lit != b.s:
                ex.axioms.append(z3.Not(z3.And(eq, e2)))
        seen[b.s] = eq
        return IntV(z3.If(eq, 0, 1), 'int')
    raise Unsupported('strcmp of %r and %r' % (a, b))


def read_foreign(ex, st, p, ty, n):
    """a load from the exporter's memory: remember the address"""
    st.ghost['last_foreign_load'] = (p.off, n.get('line'))
    t = CT(ty)
    if t.kind == 'int':
        return ex.fresh_int('imported', t.s if t.s in ('int', 'long', 'char')
                            else 'long')
    return FltV(ex.fresh_real('imported'), ty)


def write_imported(ex, st, p, v, ty, n):
    """a store into the matrix under construction: the element stored at
    position cnt of the column-major result comes from the exporter's element
    (I, J) with cnt == I + J*shape[0]: its address is buf + I*strides[0]
    (+ J*strides[1] for a two-dimensional exporter).  The witnesses I, J are
    looked for among the integer program variables."""
    imp = st.ghost.get('import')
    last = st.ghost.get('last_foreign_load')
    r = p.region
    if imp is None or last is None or r.owner is None or not getattr(
            r.owner, 'fresh', False):
        return
    es = z3.If(r.owner.id == 2, 16, 8)
    off = last[0]
    nd, s0, s1, t0, t1 = (imp[k] for k in ('nd', 's0', 's1', 't0', 't1'))
    ncols = z3.If(nd == 2, s1, 1)
    ints = []
    for k_, v_ in st.vars.items():
        if isinstance(v_, IntV) and not z3.is_int_value(z3.simplify(v_.t)):
            ints.append(v_.t)
    ints.append(z3.IntVal(0))
    goal = None
    pc = st.path()
    for I in ints:
        for J in ints:
            g = z3.And(p.off == (I + J * s0) * es, I >= 0, I < s0, J >= 0,
                       J < ncols,
                       off == I * t0 + z3.If(nd == 2, J * t1, 0))
            if ex.check(pc, [z3.Not(g)]) == z3.unsat:
                goal = g
                break
        if goal is not None:
            break
    if goal is None:
        I, J = z3.Int('I?'), z3.Int('J?')
        goal = z3.Exists([I, J], z3.And(
            p.off == (I + J * s0) * es, I >= 0, I < s0, J >= 0, J < ncols,
            off == I * t0 + z3.If(nd == 2, J * t1, 0)))
    ex.oblige(st, 'import-address', goal, n,
              text='element (I,J) of the imported matrix is read from buf + '
              'I*strides[0] + J*strides[1]: ' + cast_mod.src_of(ex.tu, n))


def init_from_buffer(ex, st, params):
    o = ex.new_obj('obj')
    st.vars[params[0]['id']] = PtrV(None, 0, 'PyObject', obj=o)
    idv = ex.fresh_int('id', 'int')
    ex.axioms.append(z3.And(idv.t >= -1, idv.t <= 2))
    st.vars[params[1]['id']] = idv
    nd = Region('local', 'ndim_out', z3.IntVal(4))
    st.vars[params[2]['id']] = PtrV(nd, 0, 'int')
    ex.trusted.add('precondition of Matrix_NewFromPyBuffer: -1 <= id <= 2, '
                   'ndim points to an int')


def post_from_buffer(ex, finished, extra_obs):
    ob = mk_ob(ex, extra_obs)
    nok = 0
    idv = z3.Int('id')
    for st, kind, val in finished:
        pc = st.path()
        if is_error(val) or not isinstance(val, PtrV) or val.obj is None:
            continue
        if val.null is not None:
            pc = pc + [z3.Not(val.null)]
        imp = st.ghost.get('import')
        if imp is None:
            continue
        nok += 1
        r = val.obj
        ob('constructor-postcondition', pc, z3.And(
            r.ismat, r.nrows == imp['s0'],
            r.ncols == z3.If(imp['nd'] == 2, imp['s1'], 1),
            z3.Implies(idv >= 0, r.id == idv)),
           'Matrix_NewFromPyBuffer returns a shape[0] by shape[1] (by 1 for '
           'a one-dimensional exporter) matrix of the requested typecode')
    ob('covered', [], z3.BoolVal(nok > 0), 'a success path exists')
    return {'success_paths': nok}


FUNCS['Matrix_NewFromPyBuffer'] = {
    'init': init_from_buffer, 'post': post_from_buffer,
    'externs': dict(COMMON, **{
        'PyObject_GetBuffer': get_buffer, 'strcmp': c_strcmp,
        'PyBuffer_Release': lambda ex, st, n, a: Opaque('void'),
        'PyBuffer_IsContiguous': buffer_is_contiguous,
        'memcpy': memcpy_import,
        'read:foreign': read_foreign, 'write:matbuf': write_imported,
        'global:FMT_STR': lambda ex, st, n: ArrV([StrV(x) for x in FMT4])}),
    'config': {'small_malloc_succeeds': True}}

def init_indexlist(ex, st, params):
    dim = ex.fresh_int('dim', 'long')
    ex.axioms.append(z3.And(dim.t >= 0, dim.t <= 2**31 - 1))
    st.vars[params[0]['id']] = dim
    st.vars[params[1]['id']] = PtrV(None, 0, 'PyObject', obj=ex.new_obj('A'))
    ex.trusted.add('precondition of create_indexlist: 0 <= dim <= INT_MAX '
                   '(every caller passes a matrix dimension or length)')


def post_indexlist(ex, finished, extra_obs):
    """create_indexlist(dim, A): NULL with an exception, or an 'i' matrix
    every element e of which satisfies -dim <= e < dim -- the contract that
    the indexing functions use, proved here on the function's own body.  The
    quantified part comes from the element facts of the loop rule (a loop
    that tests or stores element c in iteration c)."""
    ob = mk_ob(ex, extra_obs)
    dim = z3.Int('dim')
    A = ex.objs['A']
    nok = 0

    def in_range(e_):
        return z3.And(e_ >= -dim, e_ < dim)
    for st, kind, val in finished:
        pc = st.path()
        if is_error(val):
            exc = st.exc
            if exc is None:
                for cond, name in st.ghost.get('exc_if', []):
                    if ex.check(pc, [z3.Not(cond)]) == z3.unsat:
                        exc = name
            if exc is None and st.ghost.get('maybe_exc') is not None:
                exc = 'PyExc_MemoryError'
            ob('reject-exception', pc, z3.BoolVal(exc in (
                'PyExc_IndexError', 'PyExc_TypeError', 'PyExc_MemoryError',
                'PyExc_ValueError')),
               'a NULL return has IndexError, TypeError, ValueError or '
               'MemoryError set (got %s)' % exc)
            continue
        if not isinstance(val, PtrV) or val.obj is None:
            continue
        if val.null is not None:
            pc = pc + [z3.Not(val.null)]
            if ex.check(pc, []) == z3.unsat:
                continue
        nok += 1
        o = val.obj
        reg = o.buffer_region()
        lgt = o.nrows * o.ncols
        ob('indexlist-postcondition', pc, z3.And(o.ismat, o.id == 0),
           "the result is an 'i' matrix")
        if st.ghost.get(('elem_inv', reg.uid)) is not None and o is not A:
            # the result of the recursive call: by this very contract
            ob('indexlist-postcondition', pc, True,
               'elements of the list branch are in range by the contract of '
               'the recursive call')
            continue
        facts = st.ghost.get(('elem_facts', reg.uid), ())
        nst = sum(1 for s_ in st.stores if s_[0] is reg)
        goal = None
        text = 'every element of the returned index list lies in [-dim, dim)'
        for f_ in facts:
            if f_['nstores'] != nst:
                continue
            cover = z3.And(f_['lo'] == 0, f_['hi'] == lgt, f_['base'] == 0,
                           f_['sz'] == 8)
            e_ = z3.Int('elem!')
            if f_['how'] == 'checked':
                imp = z3.Implies(f_['pred'](e_), in_range(e_))
                g = z3.And(cover, imp)
            else:
                _, valt, csym = f_['pred'](None)
                k_ = z3.Int('k!')
                vk = z3.substitute(valt, (csym, k_))
                hyps = [hf(k_) for hf in st.ghost.get('forall', ())]
                g = z3.And(cover, z3.Implies(z3.And(
                    [k_ >= 0, k_ < lgt] + hyps), in_range(vk)))
            if ex.check(pc, [z3.Not(g)]) == z3.unsat:
                goal = g
                break
            goal = goal if goal is not None else g
        if goal is None:
            # no loop: the elements were stored one by one
            recs = [r_ for k_, r_ in st.ghost.items() if isinstance(
                k_, tuple) and k_ and k_[0] == 'storerec' and r_[0] is reg]
            if recs:
                e0 = recs[-1]
                goal = z3.And(lgt == len(recs), e0[1] == 0,
                              in_range(e0[3])) if len(recs) == 1 else \
                    z3.BoolVal(False)
            else:
                goal = lgt == 0
        ob('indexlist-postcondition', pc, goal, text)
    ob('covered', [], z3.BoolVal(nok > 0), 'a success path exists')
    return {'success_paths': nok}


def init_concat(ex, st, params):
    o = ex.new_obj('L')
    st.vars[params[0]['id']] = PtrV(None, 0, 'PyObject', obj=o)
    idv = ex.fresh_int('id_arg', 'int')
    ex.axioms.append(z3.And(idv.t >= -1, idv.t <= 2))
    st.vars[params[1]['id']] = idv
    ex.trusted.add('precondition of dense_concat: L is a list, -1 <= id_arg '
                   '<= 2 (the caller, matrix_new, passes a list and a '
                   'typecode id or -1)')


def post_concat(ex, finished, extra_obs):
    """dense_concat(L, id_arg): the typecode rule of the constructor from
    block lists: with tc given (id_arg >= 0) the result has exactly that
    typecode (and the call fails when a block has a larger one); the sizes
    and the element placement are NOT decided (they need summation
    invariants over the blocks)"""
    ob = mk_ob(ex, extra_obs)
    ida = z3.Int('id_arg')
    nok = 0
    for st, kind, val in finished:
        if is_error(val) or not isinstance(val, PtrV) or val.obj is None:
            continue
        pc = st.path()
        if val.null is not None:
            pc = pc + [z3.Not(val.null)]
        nok += 1
        ob('constructor-postcondition', pc, z3.Implies(
            ida >= 0, val.obj.id == ida),
           'matrix(block list, tc=...) has the requested typecode')
    ob('covered', [], z3.BoolVal(nok > 0), 'a success path exists')
    return {'success_paths': nok}


def list_get_size(ex, st, n, args):
    p = ex.ev(args[0], st)
    if not isinstance(p, PtrV) or p.obj is None:
        raise Unsupported('PyList_GET_SIZE of %r' % (p,))
    ln = p.obj.extra.setdefault('seqlen', z3.Int('len(%s)' % p.obj.name))
    ex.axioms.append(ln >= 0)
    return IntV(ln, 'long')


def matrix_new_from_number(ex, st, n, args):
    """Matrix_NewFromNumber(nrows, ncols, id, x, scalar): NULL with an
    exception or a new nrows by ncols matrix of typecode id"""
    r = toint(ex.ev(args[0], st))
    c = toint(ex.ev(args[1], st))
    i = toint(ex.ev(args[2], st))
    o = ex.new_obj('filled', fresh=True)
    fails = z3.Bool('NewFromNumber_fails@%s' % n.get('line'))
    ok = z3.And(r.t >= 0, c.t >= 0, i.t >= 0, i.t <= 2,
                r.t * c.t <= 2**31 - 1)
    ex.axioms.append(z3.Implies(z3.Not(ok), fails))
    ex.axioms.append(z3.Implies(z3.Not(fails), z3.And(
        o.ismat, o.nrows == r.t, o.ncols == c.t, o.id == i.t)))
    exc_if(st, fails, 'PyExc_TypeError')
    return PtrV(None, 0, 'matrix', null=fails, obj=o)


def callee_contract(name, idarg):
    """the contracts of Matrix_NewFromSequence / Matrix_NewFromPyBuffer /
    dense_concat as proved on their own bodies: NULL with an exception, or a
    new matrix whose typecode is id when id >= 0"""
    def h(ex, st, n, args):
        if st.pure:
            raise Impure()
        fails = det_bool(st, n, name + '_fails')
        d = ex.decide(st, fails)
        if d is None:
            raise NeedFork(fails)
        if d:
            st.exc = 'PyExc_TypeError'
            return NULL
        o = ex.new_obj(name + '_result', fresh=True)
        idv = toint(ex.ev(args[idarg], st)).t
        st.pc.append(z3.And(o.ismat, z3.Not(o.issp), o.nrows >= 0,
                            o.ncols >= 0, o.id >= 0, o.id <= 2,
                            o.nrows * o.ncols <= 2**31 - 1,
                            z3.Implies(idv >= 0, o.id == idv)))
        if len(args) > 2:
            p = ex.ev(args[2], st)
            if isinstance(p, PtrV):
                nd = ex.fresh_int('ndim', 'int')
                ex.store_through(p, nd, st, n)
        return PtrV(None, 0, 'matrix', obj=o)
    return h


def init_matrix_new(ex, st, params):
    st.vars[params[0]['id']] = PtrV(None, 0, 'PyTypeObject',
                                    obj=ex.new_obj('type'))
    for p in params[1:]:
        st.vars[p['id']] = PtrV(None, 0, 'PyObject', obj=ex.new_obj(
            p['name']))


def post_matrix_new_tp(ex, finished, extra_obs):
    """matrix(x, size, tc): with tc given the result has that typecode; with
    size given it has exactly that size (as Python integers)"""
    ob = mk_ob(ex, extra_obs)
    nok = 0
    for st, kind, val in finished:
        if is_error(val) or not isinstance(val, PtrV) or val.obj is None:
            continue
        pc = st.path()
        if val.null is not None:
            pc = pc + [z3.Not(val.null)]
        parsed = st.ghost.get('parsed', {})
        nok += 1
        r = val.obj
        nr = field(ex, st, r, 'nrows', r.nrows)
        nc = field(ex, st, r, 'ncols', r.ncols)
        tc = parsed.get('tc')
        if tc is not None and not isinstance(tc, PyObj):
            want = z3.If(tc == ord('i'), 0, z3.If(tc == ord('d'), 1, 2))
            ob('constructor-postcondition', pc, z3.Implies(
                tc != 0, r.id == want),
               'matrix(..., tc=c) has typecode c')
        a0, a1 = parsed.get('arg0'), parsed.get('arg1')
        size = parsed.get('size')
        if a0 is not None and a1 is not None and isinstance(size, PyObj):
            given = z3.Bool('given(%s)' % size.name)
            ob('constructor-postcondition', pc, z3.Implies(
                given, z3.And(nr == a0, nc == a1)),
               'matrix(..., size=(m, n)) has size (m, n)')
    ob('covered', [], z3.BoolVal(nok > 0), 'a success path exists')
    return {'success_paths': nok}


FUNCS['matrix_new'] = {
    'init': init_matrix_new, 'post': post_matrix_new_tp,
    'externs': dict(COMMON, **{
        'Matrix_NewFromNumber': matrix_new_from_number,
        'Matrix_NewFromSequence': callee_contract('NewFromSequence', 1),
        'Matrix_NewFromPyBuffer': callee_contract('NewFromPyBuffer', 1),
        'dense_concat': callee_contract('dense_concat', 1),
        'PyObject_CheckBuffer': check_buffer}),
    'config': {'allow_unsupported': ['dense', 'spmatrix', 'SP_', 'sparse']}}

FUNCS['create_indexlist'] = {
    'init': init_indexlist, 'post': post_indexlist,
    'externs': dict(COMMON, **{
        'create_indexlist': create_indexlist,
        'Matrix_NewFromSequence': callee_contract('NewFromSequence', 1),
        'PySlice_GetIndicesEx': slice_get_indices,
        'PySlice_Unpack': slice_unpack,
        'PySlice_AdjustIndices': slice_adjust}),
    'config': {'index_may_alias': False}}

FUNCS['dense_concat'] = {
    'init': init_concat, 'post': post_concat,
    'externs': dict(COMMON, **{'PyList_GET_SIZE': list_get_size,
                               'Py_SIZE': list_get_size}),
    'config': {'allow_unsupported': ['spmatrix', 'SP_', 'sparse',
                                     'convert_array']}}

FUNCS['matrix_subscr']['externs'] = dict(COMMON, **{
    'create_indexlist': create_indexlist, 'write_num[]': write_num_gather,
    'PySlice_GetIndicesEx': slice_get_indices,
    'PySlice_Unpack': slice_unpack, 'PySlice_AdjustIndices': slice_adjust})
for _k, _v in (('PySlice_GetIndicesEx', slice_get_indices),
               ('PySlice_Unpack', slice_unpack),
               ('PySlice_AdjustIndices', slice_adjust)):
    FUNCS['matrix_ass_subscr_noalias']['externs'][_k] = _v
# (history) the two-slice fast path of indexed ASSIGNMENT was an abandoned path:
# its obligations are proved for matrix_subscr but take z3 minutes here
# (nonlinear arithmetic under quantified slice facts); slices that go through
# create_indexlist are covered by that contract
