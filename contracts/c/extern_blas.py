"""Assumed contracts of the Fortran BLAS routines (reference BLAS, netlib
documentation), as seen by the C wrappers.  TRUSTED BASE.

For each routine: parameter list; for every array parameter its access mode
and its *footprint* (number of elements, starting at the pointer passed, that
the routine may read or write) as a function of the scalar arguments; the
argument-validity conditions whose violation makes the routine call XERBLA
(reference XERBLA stops the program).  Footprints:

  vector  x, n, incx      : n <= 0 -> 0 ; else 1 + (n-1)*|incx|
  general m x n, ld       : m <= 0 or n <= 0 -> 0 ; else (n-1)*ld + m
  band    (kl+ku+1) x n   : general with m := kl+ku+1
  sym/tri n x n, ld       : general n x n (the wrapper documents the full
                            square as addressed)
Level-2/3 routines return before touching any array when a dimension of the
result is zero; that is encoded in `when`.
"""
import z3
from engine.cvc.exec import (IntV, BoolV, FltV, PtrV, Opaque, NULL, CallRec,
                             Unsupported, toint, Impure, StructV)

ROUTINES = {}


def zabs(x):
    return z3.If(x >= 0, x, -x)


def zmax(a, b):
    return z3.If(a >= b, a, b)


def zmin(a, b):
    return z3.If(a <= b, a, b)


def vec(n, inc):
    return lambda p: z3.If(p[n] > 0, 1 + (p[n] - 1) * zabs(p[inc]), 0)


def vecn(nf, inc):
    """vector whose length is an expression"""
    return lambda p: z3.If(nf(p) > 0, 1 + (nf(p) - 1) * zabs(p[inc]), 0)


def ge(m, n, ld):
    def f(p):
        mm = m(p) if callable(m) else p[m]
        nn = n(p) if callable(n) else p[n]
        return z3.If(z3.And(mm > 0, nn > 0), (nn - 1) * p[ld] + mm, 0)
    return f


def ch(c):
    return ord(c)


def is_(p, name, *chars):
    return z3.Or([p[name] == ord(c) for c in chars])


FLAGS = {'trans': 'NTC', 'transa': 'NTC', 'transb': 'NTC', 'uplo': 'UL',
         'diag': 'NU', 'side': 'LR'}
INTS = {'n', 'm', 'k', 'kl', 'ku', 'incx', 'incy', 'lda', 'ldb', 'ldc'}
SCALARS = {'alpha', 'beta'}


class Routine:
    def __init__(self, name, params, arrays, requires=(), ret=None,
                 elsize=8, when=None, real_scalars=()):
        self.name = name
        self.params = params.split()
        self.arrays = arrays      # name -> (mode, footprint fn)
        self.requires = requires  # list of (text, fn)
        self.ret = ret
        self.elsize = elsize
        self.when = when          # fn(p) -> Bool: arrays are touched at all
        self.real_scalars = real_scalars


def R(base, prefixes, params, arrays, requires=(), ret=None, when=None,
      names=None, real_scalars=()):
    for i, pf in enumerate(prefixes):
        nm = (names[i] if names else pf + base) + '_'
        ROUTINES[nm] = Routine(nm, params, arrays, requires, ret,
                               16 if pf in 'z' or nm.startswith(('z', 'dz',
                                                                  'iz'))
                               else 8, when, real_scalars)


def req_flag(name):
    return ("%s in '%s'" % (name, FLAGS[name]),
            lambda p: is_(p, name, *FLAGS[name]))


def req(text, f):
    return (text, f)


nonneg = lambda v: req('%s >= 0' % v, lambda p: p[v] >= 0)
nz = lambda v: req('%s != 0' % v, lambda p: p[v] != 0)

# ---------------------------------------------------------------- level 1
R('swap', 'dz', 'n x incx y incy',
  {'x': ('rw', vec('n', 'incx')), 'y': ('rw', vec('n', 'incy'))})
# reference xSCAL returns immediately when n <= 0 or incx <= 0
R('scal', 'dz', 'n alpha x incx',
  {'x': ('rw', lambda p: z3.If(z3.And(p['n'] > 0, p['incx'] > 0),
                               1 + (p['n'] - 1) * p['incx'], 0))})
R('dscal', 'z', 'n alpha x incx',
  {'x': ('rw', lambda p: z3.If(z3.And(p['n'] > 0, p['incx'] > 0),
                               1 + (p['n'] - 1) * p['incx'], 0))},
  names=['zdscal'], real_scalars=('alpha',))
R('copy', 'dz', 'n x incx y incy',
  {'x': ('r', vec('n', 'incx')), 'y': ('w', vec('n', 'incy'))})
R('axpy', 'dz', 'n alpha x incx y incy',
  {'x': ('r', vec('n', 'incx')), 'y': ('rw', vec('n', 'incy'))})
R('dot', 'd', 'n x incx y incy',
  {'x': ('r', vec('n', 'incx')), 'y': ('r', vec('n', 'incy'))}, ret='real')
# nrm2/asum/iamax: return 0 when n < 1 or incx < 1
_v1 = lambda p: z3.If(z3.And(p['n'] > 0, p['incx'] > 0),
                      1 + (p['n'] - 1) * p['incx'], 0)
R('nrm2', 'd', 'n x incx', {'x': ('r', _v1)}, ret='real')
R('nrm2', 'z', 'n x incx', {'x': ('r', _v1)}, ret='real', names=['dznrm2'])
R('asum', 'd', 'n x incx', {'x': ('r', _v1)}, ret='real')
R('asum', 'z', 'n x incx', {'x': ('r', _v1)}, ret='real', names=['dzasum'])
R('amax', 'd', 'n x incx', {'x': ('r', _v1)}, ret='index', names=['idamax'])
R('amax', 'z', 'n x incx', {'x': ('r', _v1)}, ret='index', names=['izamax'])

# ---------------------------------------------------------------- level 2
_mn = lambda p: z3.And(p['m'] > 0, p['n'] > 0)
_lenx_gemv = lambda p: z3.If(p['trans'] == ch('N'), p['n'], p['m'])
_leny_gemv = lambda p: z3.If(p['trans'] == ch('N'), p['m'], p['n'])
R('gemv', 'dz', 'trans m n alpha A lda x incx beta y incy',
  {'A': ('r', ge('m', 'n', 'lda')),
   'x': ('r', vecn(_lenx_gemv, 'incx')),
   'y': ('rw', vecn(_leny_gemv, 'incy'))},
  [req_flag('trans'), nonneg('m'), nonneg('n'),
   req('lda >= max(1,m)', lambda p: p['lda'] >= zmax(1, p['m'])),
   nz('incx'), nz('incy')], when=_mn)
R('gbmv', 'dz', 'trans m n kl ku alpha A lda x incx beta y incy',
  {'A': ('r', ge(lambda p: p['kl'] + p['ku'] + 1, 'n', 'lda')),
   'x': ('r', vecn(_lenx_gemv, 'incx')),
   'y': ('rw', vecn(_leny_gemv, 'incy'))},
  [req_flag('trans'), nonneg('m'), nonneg('n'), nonneg('kl'), nonneg('ku'),
   req('lda >= kl+ku+1', lambda p: p['lda'] >= p['kl'] + p['ku'] + 1),
   nz('incx'), nz('incy')], when=_mn)
_n = lambda p: p['n'] > 0
_symv = dict(arrays={'A': ('r', ge('n', 'n', 'lda')),
                     'x': ('r', vec('n', 'incx')),
                     'y': ('rw', vec('n', 'incy'))},
             requires=[req_flag('uplo'), nonneg('n'),
                       req('lda >= max(1,n)', lambda p: p['lda'] >= zmax(
                           1, p['n'])), nz('incx'), nz('incy')])
R('symv', 'dz', 'uplo n alpha A lda x incx beta y incy', _symv['arrays'],
  _symv['requires'], when=_n)
R('hemv', 'z', 'uplo n alpha A lda x incx beta y incy', _symv['arrays'],
  _symv['requires'], when=_n)
_sbmv = dict(arrays={'A': ('r', ge(lambda p: p['k'] + 1, 'n', 'lda')),
                     'x': ('r', vec('n', 'incx')),
                     'y': ('rw', vec('n', 'incy'))},
             requires=[req_flag('uplo'), nonneg('n'), nonneg('k'),
                       req('lda >= k+1', lambda p: p['lda'] >= p['k'] + 1),
                       nz('incx'), nz('incy')])
R('sbmv', 'd', 'uplo n k alpha A lda x incx beta y incy', _sbmv['arrays'],
  _sbmv['requires'], when=_n)
R('hbmv', 'z', 'uplo n k alpha A lda x incx beta y incy', _sbmv['arrays'],
  _sbmv['requires'], when=_n)
_trv = dict(arrays={'A': ('r', ge('n', 'n', 'lda')),
                    'x': ('rw', vec('n', 'incx'))},
            requires=[req_flag('uplo'), req_flag('trans'), req_flag('diag'),
                      nonneg('n'), req('lda >= max(1,n)', lambda p: p['lda']
                                       >= zmax(1, p['n'])), nz('incx')])
R('trmv', 'dz', 'uplo trans diag n A lda x incx', _trv['arrays'],
  _trv['requires'], when=_n)
R('trsv', 'dz', 'uplo trans diag n A lda x incx', _trv['arrays'],
  _trv['requires'], when=_n)
_tbv = dict(arrays={'A': ('r', ge(lambda p: p['k'] + 1, 'n', 'lda')),
                    'x': ('rw', vec('n', 'incx'))},
            requires=[req_flag('uplo'), req_flag('trans'), req_flag('diag'),
                      nonneg('n'), nonneg('k'),
                      req('lda >= k+1', lambda p: p['lda'] >= p['k'] + 1),
                      nz('incx')])
R('tbmv', 'dz', 'uplo trans diag n k A lda x incx', _tbv['arrays'],
  _tbv['requires'], when=_n)
R('tbsv', 'dz', 'uplo trans diag n k A lda x incx', _tbv['arrays'],
  _tbv['requires'], when=_n)
_ger = dict(arrays={'x': ('r', vec('m', 'incx')), 'y': ('r', vec('n', 'incy')),
                    'A': ('rw', ge('m', 'n', 'lda'))},
            requires=[nonneg('m'), nonneg('n'), nz('incx'), nz('incy'),
                      req('lda >= max(1,m)', lambda p: p['lda'] >= zmax(
                          1, p['m']))])
R('ger', 'd', 'm n alpha x incx y incy A lda', _ger['arrays'],
  _ger['requires'], when=_mn)
R('gerc', 'z', 'm n alpha x incx y incy A lda', _ger['arrays'],
  _ger['requires'], when=_mn)
R('geru', 'z', 'm n alpha x incx y incy A lda', _ger['arrays'],
  _ger['requires'], when=_mn)
_syr = dict(arrays={'x': ('r', vec('n', 'incx')),
                    'A': ('rw', ge('n', 'n', 'lda'))},
            requires=[req_flag('uplo'), nonneg('n'), nz('incx'),
                      req('lda >= max(1,n)', lambda p: p['lda'] >= zmax(
                          1, p['n']))])
R('syr', 'd', 'uplo n alpha x incx A lda', _syr['arrays'], _syr['requires'],
  when=_n)
R('her', 'z', 'uplo n alpha x incx A lda', _syr['arrays'], _syr['requires'],
  when=_n, real_scalars=('alpha',))
_syr2 = dict(arrays={'x': ('r', vec('n', 'incx')), 'y': ('r', vec('n', 'incy')),
                     'A': ('rw', ge('n', 'n', 'lda'))},
             requires=[req_flag('uplo'), nonneg('n'), nz('incx'), nz('incy'),
                       req('lda >= max(1,n)', lambda p: p['lda'] >= zmax(
                           1, p['n']))])
R('syr2', 'd', 'uplo n alpha x incx y incy A lda', _syr2['arrays'],
  _syr2['requires'], when=_n)
R('her2', 'z', 'uplo n alpha x incx y incy A lda', _syr2['arrays'],
  _syr2['requires'], when=_n)

# ---------------------------------------------------------------- level 3
_ta = lambda p: p['transa'] == ch('N')
_tb = lambda p: p['transb'] == ch('N')
R('gemm', 'dz', 'transa transb m n k alpha A lda B ldb beta C ldc',
  {'A': ('r', ge(lambda p: z3.If(_ta(p), p['m'], p['k']),
                 lambda p: z3.If(_ta(p), p['k'], p['m']), 'lda')),
   'B': ('r', ge(lambda p: z3.If(_tb(p), p['k'], p['n']),
                 lambda p: z3.If(_tb(p), p['n'], p['k']), 'ldb')),
   'C': ('rw', ge('m', 'n', 'ldc'))},
  [req_flag('transa'), req_flag('transb'), nonneg('m'), nonneg('n'),
   nonneg('k'),
   req('lda >= max(1,nrowa)', lambda p: p['lda'] >= zmax(1, z3.If(
       _ta(p), p['m'], p['k']))),
   req('ldb >= max(1,nrowb)', lambda p: p['ldb'] >= zmax(1, z3.If(
       _tb(p), p['k'], p['n']))),
   req('ldc >= max(1,m)', lambda p: p['ldc'] >= zmax(1, p['m']))],
  when=_mn)
_ka = lambda p: z3.If(p['side'] == ch('L'), p['m'], p['n'])
_symm = dict(arrays={'A': ('r', ge(_ka, _ka, 'lda')),
                     'B': ('r', ge('m', 'n', 'ldb')),
                     'C': ('rw', ge('m', 'n', 'ldc'))},
             requires=[req_flag('side'), req_flag('uplo'), nonneg('m'),
                       nonneg('n'),
                       req('lda >= max(1,ka)', lambda p: p['lda'] >= zmax(
                           1, _ka(p))),
                       req('ldb >= max(1,m)', lambda p: p['ldb'] >= zmax(
                           1, p['m'])),
                       req('ldc >= max(1,m)', lambda p: p['ldc'] >= zmax(
                           1, p['m']))])
R('symm', 'dz', 'side uplo m n alpha A lda B ldb beta C ldc',
  _symm['arrays'], _symm['requires'], when=_mn)
R('hemm', 'z', 'side uplo m n alpha A lda B ldb beta C ldc',
  _symm['arrays'], _symm['requires'], when=_mn)
_tn = lambda p: p['trans'] == ch('N')
_syrk = dict(arrays={'A': ('r', ge(lambda p: z3.If(_tn(p), p['n'], p['k']),
                                   lambda p: z3.If(_tn(p), p['k'], p['n']),
                                   'lda')),
                     'C': ('rw', ge('n', 'n', 'ldc'))},
             requires=[req_flag('uplo'), req_flag('trans'), nonneg('n'),
                       nonneg('k'),
                       req('lda >= max(1,nrowa)', lambda p: p['lda'] >= zmax(
                           1, z3.If(_tn(p), p['n'], p['k']))),
                       req('ldc >= max(1,n)', lambda p: p['ldc'] >= zmax(
                           1, p['n']))])
R('syrk', 'dz', 'uplo trans n k alpha A lda beta C ldc', _syrk['arrays'],
  _syrk['requires'], when=_n)
R('herk', 'z', 'uplo trans n k alpha A lda beta C ldc', _syrk['arrays'],
  _syrk['requires'], when=_n, real_scalars=('alpha', 'beta'))
_syr2k = dict(arrays={'A': ('r', ge(lambda p: z3.If(_tn(p), p['n'], p['k']),
                                    lambda p: z3.If(_tn(p), p['k'], p['n']),
                                    'lda')),
                      'B': ('r', ge(lambda p: z3.If(_tn(p), p['n'], p['k']),
                                    lambda p: z3.If(_tn(p), p['k'], p['n']),
                                    'ldb')),
                      'C': ('rw', ge('n', 'n', 'ldc'))},
              requires=[req_flag('uplo'), req_flag('trans'), nonneg('n'),
                        nonneg('k'),
                        req('lda >= max(1,nrowa)', lambda p: p['lda'] >= zmax(
                            1, z3.If(_tn(p), p['n'], p['k']))),
                        req('ldb >= max(1,nrowa)', lambda p: p['ldb'] >= zmax(
                            1, z3.If(_tn(p), p['n'], p['k']))),
                        req('ldc >= max(1,n)', lambda p: p['ldc'] >= zmax(
                            1, p['n']))])
R('syr2k', 'dz', 'uplo trans n k alpha A lda B ldb beta C ldc',
  _syr2k['arrays'], _syr2k['requires'], when=_n)
R('her2k', 'z', 'uplo trans n k alpha A lda B ldb beta C ldc',
  _syr2k['arrays'], _syr2k['requires'], when=_n, real_scalars=('beta',))
_trm = dict(arrays={'A': ('r', ge(_ka, _ka, 'lda')),
                    'B': ('rw', ge('m', 'n', 'ldb'))},
            requires=[req_flag('side'), req_flag('uplo'), req_flag('transa'),
                      req_flag('diag'), nonneg('m'), nonneg('n'),
                      req('lda >= max(1,ka)', lambda p: p['lda'] >= zmax(
                          1, _ka(p))),
                      req('ldb >= max(1,m)', lambda p: p['ldb'] >= zmax(
                          1, p['m']))])
R('trmm', 'dz', 'side uplo transa diag m n alpha A lda B ldb',
  _trm['arrays'], _trm['requires'], when=_mn)
R('trsm', 'dz', 'side uplo transa diag m n alpha A lda B ldb',
  _trm['arrays'], _trm['requires'], when=_mn)


# ------------------------------------------------------------------ handler
def make_handler(rt):
    def h(ex, st, node, args):
        if st.pure:
            raise Impure()
        ex.trusted.add('extern %s: reference-BLAS footprint/validity '
                       'contract (contracts/c/extern_blas.py)' % rt.name)
        if len(args) != len(rt.params):
            raise Unsupported('%s called with %d arguments, contract has %d'
                              % (rt.name, len(args), len(rt.params)))
        p = {}
        ptrs = {}
        raw = {}
        for nm, a in zip(rt.params, args):
            v = ex.ev(a, st)
            raw[nm] = v
            if nm in rt.arrays:
                if not isinstance(v, PtrV):
                    raise Unsupported('%s: array argument %s is %r' % (
                        rt.name, nm, v))
                ptrs[nm] = v
            elif nm in SCALARS:
                if isinstance(v, PtrV):
                    sv = ex.load_through(v, st, node)
                    p[nm] = sv
                else:
                    raise Unsupported('%s: scalar %s not by reference' % (
                        rt.name, nm))
            else:
                from engine.cvc.exec import StrV
                if isinstance(v, StrV) and len(v.s) >= 1:
                    # a flag passed as a string literal ("L", "N"): the
                    # routine reads its first character
                    p[nm] = z3.IntVal(ord(v.s[0]))
                    continue
                if not isinstance(v, PtrV):
                    raise Unsupported('%s: %s not by reference' % (
                        rt.name, nm))
                iv = ex.load_through(v, st, node)
                p[nm] = toint(iv).t
        if st.ghost.get('gil_released') is not True and ex.cfg.get(
                'expect_gil_release'):
            pass
        ip = {k: v for k, v in p.items() if not isinstance(v, (FltV, StructV,
                                                                 Opaque))}
        for text, f in rt.requires:
            ex.oblige(st, 'extern-requires', f(ip), node,
                      text='%s requires %s' % (rt.name, text))
        touched = rt.when(ip) if rt.when else z3.BoolVal(True)
        valid = z3.And([f(ip) for _, f in rt.requires]) if rt.requires else \
            z3.BoolVal(True)
        for nm, (mode, fp) in rt.arrays.items():
            elems = z3.If(touched, fp(ip), 0)
            ptr = ptrs[nm]
            ex.bounds_oblig(ptr, elems * rt.elsize, st, node,
                            '%s argument %s (%s)' % (rt.name, nm, mode))
            if 'w' in mode and ptr.region is not None:
                st.stores.append((ptr.region, ptr.off, elems * rt.elsize,
                                  list(st.path()), node.get('line'), rt.name))
        st.calls.append(CallRec(rt.name, {'ints': ip, 'scalars': {
            k: v for k, v in p.items() if k in SCALARS}, 'ptrs': ptrs,
            'gil_released': st.ghost.get('gil_released', False)},
            list(st.path()), node.get('line')))
        st.calls[-1].site = (node.get('line'), (node.get('off') or (0, 0))[0])
        if rt.ret == 'real':
            # named by the call site and by how often the path has been
            # there: a statement re-executed after a fork regenerates the
            # same symbol
            key = ('ret', rt.name, node.get('line'),
                   (node.get('off') or (0, 0))[0])
            cnt = st.ghost.get(key, 0)
            st.ghost[key] = cnt + 1
            st.calls[-1].ret = FltV(z3.Real('ret_%s@%s.%s#%d' % (
                rt.name, key[2], key[3], cnt)), 'double')
            return st.calls[-1].ret
        if rt.ret == 'index':
            r = ex.fresh_int('ret_' + rt.name, 'int')
            ex.axioms.append(z3.And(r.t >= 0, z3.Or(r.t <= ip['n'],
                                                    r.t == 0)))
            return r
        return Opaque('void')
    return h


EXTERNS = {name: make_handler(rt) for name, rt in ROUTINES.items()}
