"""Specification rows for the wrappers of src/C/blas.c (DESIGN C17).

Written from the user documentation: doc/source/blas.rst for the operation,
the flag alphabets and which argument is the output, and the per-function
argument descriptions (the doc strings, which are what `help(blas.f)` shows
and what blas.rst refers the reader to for n/inc/ld/offset) for the defaults,
and from the netlib BLAS documentation for the expected Fortran call.  NOT
derived from the wrapper bodies.

Row: row(a) -> Spec;  `a.<name>` is the parsed Python-level argument.
"""
import z3
from engine.cvc.wrapspec import (Spec, Call, vec_extent, ge_extent, default_n,
                                 zabs, zmax, zmin, isin, ch)
from engine.cvc.exec import (IntV, FltV, PtrV, StructV, Impure, toint,
                             Unsupported)

ROWS = {}
KW = {}


def row(name, kw):
    def deco(f):
        ROWS[name] = f
        KW[name] = kw.split()
        return f
    return deco


# ------------------------------------------------------------------------
# contract of the file-local helper number_from_pyobject(o, &a, id):
#   returns 0 and stores the value of o in a->d (id DOUBLE; o must be an int
#   or float) or a->z (id COMPLEX; o int, float or complex); returns -1 and
#   stores nothing otherwise.   (verified separately: blas.c:number_from_
#   pyobject is a leaf function whose body is this case split.)
def number_from_pyobject(ex, st, n, args):
    if st.pure:
        raise Impure()
    o = ex.ev(args[0], st)
    a = ex.ev(args[1], st)
    i = toint(ex.ev(args[2], st))
    if not (isinstance(o, PtrV) and o.obj is not None):
        raise Unsupported('number_from_pyobject on %r' % (o,))
    if o.null is not None:
        ex.oblige(st, 'deref', z3.Not(o.null), n,
                  text='number_from_pyobject(%s) on possibly-NULL' %
                  o.obj.name)
    nm = o.obj.name
    isreal = z3.Bool('isreal(%s)' % nm)
    iscplx = z3.Bool('iscplx(%s)' % nm)
    ex.axioms.append(z3.Implies(isreal, iscplx))
    d1 = ex.decide(st, i.t == 1)
    d2 = ex.decide(st, i.t == 2)
    if d1 is True:
        ok = isreal
        v = StructV('number', {'d': FltV(z3.Real('re(%s)' % nm), 'double')})
    elif d2 is True:
        ok = iscplx
        v = StructV('number', {'z': FltV(z3.Real('cplx(%s)' % nm),
                                         'complex')})
    else:
        ok = z3.If(i.t == 1, isreal, z3.And(i.t == 2, iscplx))
        v = StructV('number', {'d': FltV(z3.Real('re(%s)' % nm), 'double'),
                               'z': FltV(z3.Real('cplx(%s)' % nm),
                                         'complex')})
    errs = list(st.ghost.get('scalar_errs', []))
    errs.append(z3.Not(ok))
    st.ghost['scalar_errs'] = errs
    ex.store_through(a, v, st, n)
    return IntV(z3.If(ok, 0, -1), 'int')


LOCAL_EXTERNS = {'number_from_pyobject': number_from_pyobject}


def std_vec_rejects(a, pairs, n):
    """pairs: [(mat, off, inc)] ; documented: inc nonzero/positive handled by
    caller; offsets nonnegative; buffer long enough for n elements"""
    out = []
    for (m, off, inc, nm) in pairs:
        out.append(('offset of %s negative' % nm, off < 0))
        out.append(('length of %s too small' % nm,
                    z3.And(n > 0, m.len < off + 1 + (n - 1) * zabs(inc))))
    return out


# ---------------------------------------------------------------- level 1
@row('swap', 'x y n incx incy offsetx offsety')
def swap(a):
    x, y = a.x, a.y
    dx = default_n(x.len, a.offsetx, a.incx)
    dy = default_n(y.len, a.offsety, a.incy)
    n = z3.If(a.n < 0, dx, a.n)
    rej = [('incx zero', a.incx == 0), ('incy zero', a.incy == 0),
           ('unequal default lengths', z3.And(a.n < 0, dx != dy))]
    rej += std_vec_rejects(a, [(x, a.offsetx, a.incx, 'x'),
                               (y, a.offsety, a.incy, 'y')], n)
    return Spec(['x', 'y'], rej,
                [Call({'d': 'dswap_', 'z': 'zswap_'},
                      ints={'n': n, 'incx': a.incx, 'incy': a.incy},
                      ptrs={'x': ('x', a.offsetx), 'y': ('y', a.offsety)})],
                outputs=[('x', a.offsetx, vec_extent(n, a.incx)),
                         ('y', a.offsety, vec_extent(n, a.incy))],
                noop=(n == 0))


@row('scal', 'alpha x n inc offset')
def scal(a):
    x = a.x
    n = z3.If(a.n < 0, default_n(x.len, a.offset, a.inc), a.n)
    rej = [('inc not positive', a.inc <= 0)]
    rej += std_vec_rejects(a, [(x, a.offset, a.inc, 'x')], n)
    re, cz = a.reqscalar('alpha')
    isreal = z3.Bool('isreal(alpha)')
    ints = {'n': n, 'incx': a.inc}
    ptrs = {'x': ('x', a.offset)}
    return Spec(['x'], rej,
                [Call('dscal_', when=x.id == 1, ints=ints, ptrs=ptrs,
                      scalars={'alpha': re}),
                 Call('zdscal_', when=z3.And(x.id == 2, isreal), ints=ints,
                      ptrs=ptrs, scalars={'alpha': re}),
                 Call('zscal_', when=z3.And(x.id == 2, z3.Not(isreal)),
                      ints=ints, ptrs=ptrs, scalars={'alpha': cz})],
                outputs=[('x', a.offset, vec_extent(n, a.inc))],
                noop=(n == 0),
                type_rejects=[z3.And(n != 0, z3.Not(z3.Bool(
                    'iscplx(alpha)'))),
                    z3.And(n != 0, x.id == 1, z3.Not(isreal))])


# ---------------------------------------------------------------- level 2
@row('gemv', 'A x y trans alpha beta m n ldA incx incy offsetA offsetx '
     'offsety')
def gemv(a):
    A, x, y = a.A, a.x, a.y
    m = z3.If(a.m < 0, A.nrows, a.m)
    n = z3.If(a.n < 0, A.ncols, a.n)
    ldA = z3.If(a.ldA == 0, zmax(1, A.nrows), a.ldA)
    N = a.trans == ch('N')
    lx = z3.If(N, n, m)
    ly = z3.If(N, m, n)
    # blas.rst: returns immediately if n=0 and trans is 'T'/'C', or m=0 and
    # trans is 'N'; computes y := beta*y if n=0,m>0,'N' or m=0,n>0,'T'/'C'
    quick = ly == 0
    scal_only = z3.And(ly > 0, lx == 0)
    nq = z3.Not(quick)
    rej = [("trans not in 'N','T','C'", z3.Not(isin(a.trans, 'NTC'))),
           ('incx zero', a.incx == 0), ('incy zero', a.incy == 0),
           ('ldA < max(1,m)', ldA < zmax(1, m), nq),
           ('offsetA negative', a.offsetA < 0, nq),
           ('A too small', z3.And(m > 0, n > 0,
                                  a.offsetA + (n - 1) * ldA + m > A.len), nq),
           ('offsetx negative', a.offsetx < 0, nq),
           ('x too small', z3.And(lx > 0, a.offsetx + (
               lx - 1) * zabs(a.incx) + 1 > x.len), nq),
           ('offsety negative', a.offsety < 0, nq),
           ('y too small', a.offsety + (
               ly - 1) * zabs(a.incy) + 1 > y.len, nq)]
    al = a.scalar('alpha', 1)
    be = a.scalar('beta', 0)
    return Spec(['A', 'x', 'y'], rej,
                [Call({'d': 'dgemv_', 'z': 'zgemv_'},
                      when=z3.Not(scal_only),
                      ints={'trans': a.trans, 'm': m, 'n': n, 'lda': ldA,
                            'incx': a.incx, 'incy': a.incy},
                      ptrs={'A': ('A', a.offsetA), 'x': ('x', a.offsetx),
                            'y': ('y', a.offsety)},
                      scalars={'alpha': al, 'beta': be}),
                 # y := beta*y on the addressed view of y
                 Call({'d': 'dscal_', 'z': 'zscal_'}, when=scal_only,
                      ints={'n': ly},
                      ptrs={'x': ('y', a.offsety)},
                      scalars={'alpha': be})],
                outputs=[('y', a.offsety, vec_extent(ly, a.incy))],
                noop=quick,
                type_rejects=[z3.And(nq, a.scalar_bad('alpha', A.id)),
                              z3.And(nq, a.scalar_bad('beta', A.id))])


# ========================================================================
# helpers shared by the rows below
#
# Conventions taken from the doc strings:
#   "If negative, the default value is used"      -> dflt(v, default)
#   "If zero, the default value is used" (ld*)    -> ldflt(v, default)
# Zero dimensions: where the doc string says "returns immediately" that is
# the row's `noop`; where it is silent, `noop` is "the documented output view
# is empty" (the operation is vacuous).  Requirements on ld*/offset*/buffer
# lengths (and checks the wrappers are documented to make on defaulted
# dimensions) describe the *addressed* data, so they are mandatory reasons
# for rejection only when something is addressed: they carry the guard
# `not noop`.  Flag alphabets and "nonzero/positive integer" are properties of
# the argument value itself.
def dflt(v, d):
    return z3.If(v < 0, d, v)


def ldflt(v, d):
    return z3.If(v == 0, d, v)


def vec_rejects(nm, v, off, n, inc, g=True):
    """offset nonnegative; n elements with stride |inc| from off fit"""
    return [('offset%s negative' % nm, off < 0, g),
            ('%s too small' % nm,
             z3.And(n > 0, off + (n - 1) * zabs(inc) + 1 > v.len), g)]


def mat_rejects(nm, M, off, rows, cols, ld, g=True):
    """offset nonnegative; rows x cols block with leading dimension ld from
    off fits"""
    return [('offset%s negative' % nm, off < 0, g),
            ('%s too small' % nm,
             z3.And(rows > 0, cols > 0,
                    off + (cols - 1) * ld + rows > M.len), g)]


def bad_flag(nm, v, chars):
    return ("%s not in '%s'" % (nm, chars), z3.Not(isin(v, chars)))


REAL = z3.IntVal(1)        # typecode term for "must be a real number"


# ---------------------------------------------------------------- level 1
def _two_vec(a, routine, out=False, alpha=False, need_equal=False):
    """copy/axpy/dot/dotu: n defaults to the number of addressed elements of
    x.  (The doc strings of copy/axpy/dot/dotu write the default with /incx
    where swap writes /|incx|; incx may be negative, so |incx| is meant.)"""
    x, y = a.x, a.y
    dx = default_n(x.len, a.offsetx, a.incx)
    n = dflt(a.n, dx)
    rej = [('incx zero', a.incx == 0), ('incy zero', a.incy == 0)]
    if need_equal:
        dy = default_n(y.len, a.offsety, a.incy)
        rej.append(('unequal default lengths', z3.And(a.n < 0, dx != dy)))
    rej += std_vec_rejects(a, [(x, a.offsetx, a.incx, 'x'),
                               (y, a.offsety, a.incy, 'y')], n)
    sc, tr = {}, []
    if alpha:
        sc = {'alpha': a.scalar('alpha', 1)}
        tr = [z3.And(n != 0, a.scalar_bad('alpha', x.id))]
    calls = [Call(routine, ints={'n': n, 'incx': a.incx, 'incy': a.incy},
                  ptrs={'x': ('x', a.offsetx), 'y': ('y', a.offsety)},
                  scalars=sc)]
    outs = [('y', a.offsety, vec_extent(n, a.incy))] if out else []
    return Spec(['x', 'y'], rej, calls, outputs=outs, noop=(n == 0),
                type_rejects=tr)


@row('copy', 'x y n incx incy offsetx offsety')
def copy(a):
    return _two_vec(a, {'d': 'dcopy_', 'z': 'zcopy_'}, out=True)


@row('axpy', 'x y alpha n incx incy offsetx offsety')
def axpy(a):
    return _two_vec(a, {'d': 'daxpy_', 'z': 'zaxpy_'}, out=True, alpha=True)


def _dot(a):
    """dot / dotu.  Real: ddot_.  Complex: composed from four ddot_ calls on
    the real and imaginary parts (views of the double array with offsets
    2*offset[+1] and increments 2*inc); which of the four is added or
    subtracted distinguishes dot from dotu and is part of the value, not of
    the call correspondence.  Returns 0 if n=0."""
    sp = _two_vec(a, 'ddot_', need_equal=True)
    x = a.x
    n = sp.calls[0].ints['n']
    sp.calls[0].when = x.id == 1
    for px in (0, 1):
        for py in (0, 1):
            sp.calls.append(Call(
                'ddot_', when=x.id == 2,
                ints={'n': n, 'incx': 2 * a.incx, 'incy': 2 * a.incy},
                ptrs={'x': ('x', 2 * a.offsetx + px, 8),
                      'y': ('y', 2 * a.offsety + py, 8)}))
    return sp


@row('dot', 'x y n incx incy offsetx offsety')
def dot(a):
    return _dot(a)


@row('dotu', 'x y n incx incy offsetx offsety')
def dotu(a):
    return _dot(a)


def _one_vec(a, routine):
    """nrm2/asum/iamax: inc positive; return 0 if n=0"""
    x = a.x
    n = dflt(a.n, default_n(x.len, a.offset, a.inc))
    rej = [('inc not positive', a.inc <= 0)]
    rej += std_vec_rejects(a, [(x, a.offset, a.inc, 'x')], n)
    return Spec(['x'], rej,
                [Call(routine, ints={'n': n, 'incx': a.inc},
                      ptrs={'x': ('x', a.offset)})],
                noop=(n == 0))


@row('nrm2', 'x n inc offset')
def nrm2(a):
    return _one_vec(a, {'d': 'dnrm2_', 'z': 'dznrm2_'})


@row('asum', 'x n inc offset')
def asum(a):
    return _one_vec(a, {'d': 'dasum_', 'z': 'dzasum_'})


@row('iamax', 'x n inc offset')
def iamax(a):
    return _one_vec(a, {'d': 'idamax_', 'z': 'izamax_'})


# ---------------------------------------------------------------- level 2
@row('gbmv', 'A m kl x y trans alpha beta n ku ldA incx incy offsetA '
     'offsetx offsety')
def gbmv(a):
    A, x, y = a.A, a.x, a.y
    m, kl = a.m, a.kl                       # required, "nonnegative integer"
    n = dflt(a.n, A.ncols)
    ku = dflt(a.ku, A.nrows - kl - 1)       # "nonnegative integer"
    ldA = ldflt(a.ldA, zmax(1, A.nrows))    # signature: ldA=max(1,A.size[0])
    N = a.trans == ch('N')
    lx = z3.If(N, n, m)
    ly = z3.If(N, m, n)
    # returns immediately if n=0 and trans is 'T'/'C', or m=0 and trans is
    # 'N'; computes y := beta*y if n=0,m>0,'N' or m=0,n>0,'T'/'C'
    quick = ly == 0
    scal_only = z3.And(ly > 0, lx == 0)
    nq = z3.Not(quick)
    rej = [bad_flag('trans', a.trans, 'NTC'),
           ('incx zero', a.incx == 0), ('incy zero', a.incy == 0),
           ('m negative', m < 0, nq), ('kl negative', kl < 0, nq),
           ('ku negative', ku < 0, nq),
           ('ldA < kl+ku+1', ldA < kl + ku + 1, nq)]
    rej += mat_rejects('A', A, a.offsetA, z3.If(z3.And(m > 0, n > 0),
                                                kl + ku + 1, 0), n, ldA, nq)
    rej += vec_rejects('x', x, a.offsetx, lx, a.incx, nq)
    rej += vec_rejects('y', y, a.offsety, ly, a.incy, nq)
    al = a.scalar('alpha', 1)
    be = a.scalar('beta', 0)
    return Spec(['A', 'x', 'y'], rej,
                [Call({'d': 'dgbmv_', 'z': 'zgbmv_'},
                      when=z3.Not(scal_only),
                      ints={'trans': a.trans, 'm': m, 'n': n, 'kl': kl,
                            'ku': ku, 'lda': ldA, 'incx': a.incx,
                            'incy': a.incy},
                      ptrs={'A': ('A', a.offsetA), 'x': ('x', a.offsetx),
                            'y': ('y', a.offsety)},
                      scalars={'alpha': al, 'beta': be}),
                 # y := beta*y on the addressed view of y
                 Call({'d': 'dscal_', 'z': 'zscal_'}, when=scal_only,
                      ints={'n': ly},
                      ptrs={'x': ('y', a.offsety)},
                      scalars={'alpha': be})],
                outputs=[('y', a.offsety, vec_extent(ly, a.incy))],
                noop=quick,
                type_rejects=[z3.And(nq, a.scalar_bad('alpha', A.id)),
                              z3.And(nq, a.scalar_bad('beta', A.id))])


def _order_n(a, A):
    """order n of a square (symmetric/Hermitian/triangular) A: default
    A.size[0]; "if the default value is used, we require that
    A.size[0]=A.size[1]" """
    n = dflt(a.n, A.nrows)
    notsq = z3.And(a.n < 0, A.nrows != A.ncols)
    return n, notsq


def _symv(a, routine, ids):
    """y := alpha*A*x + beta*y, A symmetric/Hermitian of order n"""
    A, x, y = a.A, a.x, a.y
    n, notsq = _order_n(a, A)
    ldA = ldflt(a.ldA, zmax(1, A.nrows))
    nq = n != 0
    rej = [bad_flag('uplo', a.uplo, 'LU'),
           ('incx zero', a.incx == 0), ('incy zero', a.incy == 0),
           ('A is not square (default n)', notsq),
           ('ldA < max(1,n)', ldA < zmax(1, n), nq)]
    rej += mat_rejects('A', A, a.offsetA, n, n, ldA, nq)
    rej += vec_rejects('x', x, a.offsetx, n, a.incx, nq)
    rej += vec_rejects('y', y, a.offsety, n, a.incy, nq)
    return Spec(['A', 'x', 'y'], rej,
                [Call(routine,
                      ints={'uplo': a.uplo, 'n': n, 'lda': ldA,
                            'incx': a.incx, 'incy': a.incy},
                      ptrs={'A': ('A', a.offsetA), 'x': ('x', a.offsetx),
                            'y': ('y', a.offsety)},
                      scalars={'alpha': a.scalar('alpha', 1),
                               'beta': a.scalar('beta', 0)})],
                outputs=[('y', a.offsety, vec_extent(n, a.incy))],
                noop=(n == 0), ids=ids,
                type_rejects=[z3.And(nq, a.scalar_bad('alpha', A.id)),
                              z3.And(nq, a.scalar_bad('beta', A.id))])


_SYMV_KW = 'A x y uplo alpha beta n ldA incx incy offsetA offsetx offsety'


@row('symv', _SYMV_KW)
def symv(a):
    return _symv(a, {'d': 'dsymv_'}, (1,))


@row('hemv', _SYMV_KW)
def hemv(a):
    return _symv(a, {'d': 'dsymv_', 'z': 'zhemv_'}, (1, 2))


def _band(a, A):
    """band storage: order n = A.size[1], k = max(0,A.size[0]-1) diagonals
    beside the main one, ldA = A.size[0] >= k+1; footprint (k+1) x n"""
    n = dflt(a.n, A.ncols)
    k = dflt(a.k, zmax(0, A.nrows - 1))
    ldA = ldflt(a.ldA, A.nrows)
    return n, k, ldA


def _sbmv(a, routine, ids):
    """y := alpha*A*x + beta*y, A symmetric/Hermitian band"""
    A, x, y = a.A, a.x, a.y
    n, k, ldA = _band(a, A)
    nq = n != 0
    rej = [bad_flag('uplo', a.uplo, 'LU'),
           ('incx zero', a.incx == 0), ('incy zero', a.incy == 0),
           ('ldA < k+1', ldA < k + 1, nq)]
    rej += mat_rejects('A', A, a.offsetA, k + 1, n, ldA, nq)
    rej += vec_rejects('x', x, a.offsetx, n, a.incx, nq)
    rej += vec_rejects('y', y, a.offsety, n, a.incy, nq)
    return Spec(['A', 'x', 'y'], rej,
                [Call(routine,
                      ints={'uplo': a.uplo, 'n': n, 'k': k, 'lda': ldA,
                            'incx': a.incx, 'incy': a.incy},
                      ptrs={'A': ('A', a.offsetA), 'x': ('x', a.offsetx),
                            'y': ('y', a.offsety)},
                      scalars={'alpha': a.scalar('alpha', 1),
                               'beta': a.scalar('beta', 0)})],
                outputs=[('y', a.offsety, vec_extent(n, a.incy))],
                noop=(n == 0), ids=ids,
                type_rejects=[z3.And(nq, a.scalar_bad('alpha', A.id)),
                              z3.And(nq, a.scalar_bad('beta', A.id))])


_SBMV_KW = 'A x y uplo alpha beta n k ldA incx incy offsetA offsetx offsety'


@row('sbmv', _SBMV_KW)
def sbmv(a):
    return _sbmv(a, {'d': 'dsbmv_'}, (1,))


@row('hbmv', _SBMV_KW)
def hbmv(a):
    return _sbmv(a, {'d': 'dsbmv_', 'z': 'zhbmv_'}, (1, 2))


def _tri_flags(a, trans):
    # blas.rst and the PURPOSE sections give trans in 'N','T','C' (the
    # argument list of doc_trmv only names 'N' or 'T')
    return [bad_flag('uplo', a.uplo, 'LU'), bad_flag('trans', trans, 'NTC'),
            bad_flag('diag', a.diag, 'NU')]


def _trv(a, routine):
    """trmv/trsv: x := op(A)*x or op(A)^{-1}*x, A triangular of order n"""
    A, x = a.A, a.x
    n, notsq = _order_n(a, A)
    ldA = ldflt(a.ldA, zmax(1, A.nrows))
    nq = n != 0
    rej = _tri_flags(a, a.trans) + [
        ('incx zero', a.incx == 0),
        ('A is not square (default n)', notsq),
        ('ldA < max(1,n)', ldA < zmax(1, n), nq)]
    rej += mat_rejects('A', A, a.offsetA, n, n, ldA, nq)
    rej += vec_rejects('x', x, a.offsetx, n, a.incx, nq)
    return Spec(['A', 'x'], rej,
                [Call(routine,
                      ints={'uplo': a.uplo, 'trans': a.trans,
                            'diag': a.diag, 'n': n, 'lda': ldA,
                            'incx': a.incx},
                      ptrs={'A': ('A', a.offsetA), 'x': ('x', a.offsetx)})],
                outputs=[('x', a.offsetx, vec_extent(n, a.incx))],
                noop=(n == 0))


_TRV_KW = 'A x uplo trans diag n ldA incx offsetA offsetx'


@row('trmv', _TRV_KW)
def trmv(a):
    return _trv(a, {'d': 'dtrmv_', 'z': 'ztrmv_'})


@row('trsv', _TRV_KW)
def trsv(a):
    return _trv(a, {'d': 'dtrsv_', 'z': 'ztrsv_'})


def _tbv(a, routine):
    """tbmv/tbsv: A triangular band of order n with k sub/superdiagonals"""
    A, x = a.A, a.x
    n, k, ldA = _band(a, A)
    nq = n != 0
    rej = _tri_flags(a, a.trans) + [
        ('incx zero', a.incx == 0),
        ('ldA < k+1', ldA < k + 1, nq)]
    rej += mat_rejects('A', A, a.offsetA, k + 1, n, ldA, nq)
    rej += vec_rejects('x', x, a.offsetx, n, a.incx, nq)
    return Spec(['A', 'x'], rej,
                [Call(routine,
                      ints={'uplo': a.uplo, 'trans': a.trans,
                            'diag': a.diag, 'n': n, 'k': k, 'lda': ldA,
                            'incx': a.incx},
                      ptrs={'A': ('A', a.offsetA), 'x': ('x', a.offsetx)})],
                outputs=[('x', a.offsetx, vec_extent(n, a.incx))],
                noop=(n == 0))


_TBV_KW = 'A x uplo trans diag n k ldA incx offsetA offsetx'


@row('tbmv', _TBV_KW)
def tbmv(a):
    return _tbv(a, {'d': 'dtbmv_', 'z': 'ztbmv_'})


@row('tbsv', _TBV_KW)
def tbsv(a):
    return _tbv(a, {'d': 'dtbsv_', 'z': 'ztbsv_'})


def _ger(a, routine):
    """A := A + alpha*x*y^H (ger) / alpha*x*y^T (geru), A m by n"""
    A, x, y = a.A, a.x, a.y
    m = dflt(a.m, A.nrows)
    n = dflt(a.n, A.ncols)
    ldA = ldflt(a.ldA, zmax(1, A.nrows))
    quick = z3.Or(m == 0, n == 0)
    nq = z3.Not(quick)
    rej = [('incx zero', a.incx == 0), ('incy zero', a.incy == 0),
           ('ldA < max(1,m)', ldA < zmax(1, m), nq)]
    rej += mat_rejects('A', A, a.offsetA, m, n, ldA, nq)
    rej += vec_rejects('x', x, a.offsetx, m, a.incx, nq)
    rej += vec_rejects('y', y, a.offsety, n, a.incy, nq)
    return Spec(['x', 'y', 'A'], rej,
                [Call(routine,
                      ints={'m': m, 'n': n, 'incx': a.incx, 'incy': a.incy,
                            'lda': ldA},
                      ptrs={'x': ('x', a.offsetx), 'y': ('y', a.offsety),
                            'A': ('A', a.offsetA)},
                      scalars={'alpha': a.scalar('alpha', 1)})],
                outputs=[('A', a.offsetA, ge_extent(m, n, ldA))],
                noop=quick,
                type_rejects=[z3.And(nq, a.scalar_bad('alpha', A.id))])


@row('ger', 'x y A alpha m n incx incy ldA offsetx offsety offsetA')
def ger(a):
    return _ger(a, {'d': 'dger_', 'z': 'zgerc_'})


# blas.rst: geru(x, y, A[, alpha = 1.0]) and the ARGUMENTS list of doc_geru
# put alpha directly after A; the first line of doc_geru
# ("geru(x, y, A, m=A.size[0], n=A.size[1], alpha=1.0, ...)") disagrees with
# both -- the manual's order is taken.
@row('geru', 'x y A alpha m n incx incy ldA offsetx offsety offsetA')
def geru(a):
    return _ger(a, {'d': 'dger_', 'z': 'zgeru_'})


def _syr(a, routine, ids, two, alpha_id=None):
    """rank-1 (x) / rank-2 (x, y) update of a symmetric/Hermitian A of order
    n = A.size[0].  blas.rst: a symmetric matrix of order n is an (n,n)
    matrix; the doc strings of syr/her/syr2/her2 do not repeat the
    "A.size[0]=A.size[1] if n defaults" sentence of symv/trmv, so a
    non-square A with defaulted n is a permitted, not a mandatory, reason."""
    A, x = a.A, a.x
    n, notsq = _order_n(a, A)
    ldA = ldflt(a.ldA, zmax(1, A.nrows))
    nq = n != 0
    rej = [bad_flag('uplo', a.uplo, 'LU') + (nq,),
           ('incx zero', a.incx == 0),
           ('A is not square (default n)', notsq, z3.BoolVal(False)),
           ('ldA < max(1,n)', ldA < zmax(1, n), nq)]
    rej += mat_rejects('A', A, a.offsetA, n, n, ldA, nq)
    rej += vec_rejects('x', x, a.offsetx, n, a.incx, nq)
    ints = {'uplo': a.uplo, 'n': n, 'incx': a.incx, 'lda': ldA}
    ptrs = {'x': ('x', a.offsetx), 'A': ('A', a.offsetA)}
    mats = ['x', 'A']
    if two:
        y = a.y
        rej.append(('incy zero', a.incy == 0))
        rej += vec_rejects('y', y, a.offsety, n, a.incy, nq)
        ints['incy'] = a.incy
        ptrs['y'] = ('y', a.offsety)
        mats = ['x', 'y', 'A']
    al = a.scalar('alpha', 1)
    if alpha_id is None:
        alpha_id = A.id
    else:
        al = al[0]              # "alpha real number": passed as a double
    return Spec(mats, rej,
                [Call(routine, ints=ints, ptrs=ptrs, scalars={'alpha': al})],
                outputs=[('A', a.offsetA, ge_extent(n, n, ldA))],
                noop=(n == 0), ids=ids,
                type_rejects=[z3.And(nq, a.scalar_bad('alpha', alpha_id))])


_SYR_KW = 'x A uplo alpha n incx ldA offsetx offsetA'
_SYR2_KW = 'x y A uplo alpha n incx incy ldA offsetx offsety offsetA'


@row('syr', _SYR_KW)
def syr(a):
    return _syr(a, {'d': 'dsyr_'}, (1,), False, alpha_id=REAL)


@row('her', _SYR_KW)
def her(a):
    return _syr(a, {'d': 'dsyr_', 'z': 'zher_'}, (1, 2), False,
                alpha_id=REAL)


@row('syr2', _SYR2_KW)
def syr2(a):
    return _syr(a, {'d': 'dsyr2_'}, (1,), True)


@row('her2', _SYR2_KW)
def her2(a):
    return _syr(a, {'d': 'dsyr2_', 'z': 'zher2_'}, (1, 2), True)


# ---------------------------------------------------------------- level 3
@row('gemm', 'A B C transA transB alpha beta m n k ldA ldB ldC offsetA '
     'offsetB offsetC')
def gemm(a):
    """C := alpha*op(A)*op(B) + beta*C, C m by n, inner dimension k.
    "If k=0, this reduces to C := beta*C": still the gemm call (reference
    xGEMM does exactly that), with its ld requirements."""
    A, B, C = a.A, a.B, a.C
    NA = a.transA == ch('N')
    NB = a.transB == ch('N')
    m = dflt(a.m, z3.If(NA, A.nrows, A.ncols))
    n = dflt(a.n, z3.If(NB, B.ncols, B.nrows))
    k = dflt(a.k, z3.If(NA, A.ncols, A.nrows))
    ldA = ldflt(a.ldA, zmax(1, A.nrows))
    ldB = ldflt(a.ldB, zmax(1, B.nrows))
    ldC = ldflt(a.ldC, zmax(1, C.nrows))
    quick = z3.Or(m == 0, n == 0)
    nq = z3.Not(quick)
    ra, ca = z3.If(NA, m, k), z3.If(NA, k, m)      # A as stored: ra x ca
    rb, cb = z3.If(NB, k, n), z3.If(NB, n, k)      # B as stored: rb x cb
    rej = [bad_flag('transA', a.transA, 'NTC'),
           bad_flag('transB', a.transB, 'NTC'),
           ('default k: dimensions of A and B do not match',
            z3.And(a.k < 0, k != z3.If(NB, B.nrows, B.ncols))),
           ("ldA < max(1,(transA=='N') ? m : k)", ldA < zmax(1, ra), nq),
           ("ldB < max(1,(transB=='N') ? k : n)", ldB < zmax(1, rb), nq),
           ('ldC < max(1,m)', ldC < zmax(1, m), nq)]
    rej += mat_rejects('A', A, a.offsetA, ra, ca, ldA, nq)
    rej += mat_rejects('B', B, a.offsetB, rb, cb, ldB, nq)
    rej += mat_rejects('C', C, a.offsetC, m, n, ldC, nq)
    return Spec(['A', 'B', 'C'], rej,
                [Call({'d': 'dgemm_', 'z': 'zgemm_'},
                      ints={'transa': a.transA, 'transb': a.transB, 'm': m,
                            'n': n, 'k': k, 'lda': ldA, 'ldb': ldB,
                            'ldc': ldC},
                      ptrs={'A': ('A', a.offsetA), 'B': ('B', a.offsetB),
                            'C': ('C', a.offsetC)},
                      scalars={'alpha': a.scalar('alpha', 1),
                               'beta': a.scalar('beta', 0)})],
                outputs=[('C', a.offsetC, ge_extent(m, n, ldC))],
                noop=quick,
                type_rejects=[z3.And(nq, a.scalar_bad('alpha', A.id)),
                              z3.And(nq, a.scalar_bad('beta', A.id))])


def _symm(a, routine):
    """C := alpha*A*B + beta*C (side 'L') or alpha*B*A + beta*C ('R'); C and
    B m by n, A symmetric/Hermitian of order m ('L') or n ('R')"""
    A, B, C = a.A, a.B, a.C
    L = a.side == ch('L')
    m = dflt(a.m, B.nrows)
    n = dflt(a.n, B.ncols)
    ka = z3.If(L, m, n)
    ldA = ldflt(a.ldA, zmax(1, A.nrows))
    ldB = ldflt(a.ldB, zmax(1, B.nrows))
    ldC = ldflt(a.ldC, zmax(1, C.nrows))
    quick = z3.Or(m == 0, n == 0)
    nq = z3.Not(quick)
    rej = [bad_flag('side', a.side, 'LR'), bad_flag('uplo', a.uplo, 'LU'),
           ("default m, side 'L': m != A.size[0] or m != A.size[1]",
            z3.And(a.m < 0, L, z3.Or(m != A.nrows, m != A.ncols))),
           ("default n, side 'R': n != A.size[0] or n != A.size[1]",
            z3.And(a.n < 0, a.side == ch('R'),
                   z3.Or(n != A.nrows, n != A.ncols))),
           ("ldA < max(1,(side=='L') ? m : n)", ldA < zmax(1, ka), nq),
           # B is m by n: netlib xSYMM/xHEMM require ldb >= max(1,m).  (The
           # doc strings say "ldB >= max(1, (side == 'L') ? n : m)", which
           # is not the requirement of the routine they describe.)
           ('ldB < max(1,m)', ldB < zmax(1, m), nq),
           ('ldC < max(1,m)', ldC < zmax(1, m), nq)]
    rej += mat_rejects('A', A, a.offsetA, ka, ka, ldA, nq)
    rej += mat_rejects('B', B, a.offsetB, m, n, ldB, nq)
    rej += mat_rejects('C', C, a.offsetC, m, n, ldC, nq)
    return Spec(['A', 'B', 'C'], rej,
                [Call(routine,
                      ints={'side': a.side, 'uplo': a.uplo, 'm': m, 'n': n,
                            'lda': ldA, 'ldb': ldB, 'ldc': ldC},
                      ptrs={'A': ('A', a.offsetA), 'B': ('B', a.offsetB),
                            'C': ('C', a.offsetC)},
                      scalars={'alpha': a.scalar('alpha', 1),
                               'beta': a.scalar('beta', 0)})],
                outputs=[('C', a.offsetC, ge_extent(m, n, ldC))],
                noop=quick,
                type_rejects=[z3.And(nq, a.scalar_bad('alpha', A.id)),
                              z3.And(nq, a.scalar_bad('beta', A.id))])


_SYMM_KW = ('A B C side uplo alpha beta m n ldA ldB ldC offsetA offsetB '
            'offsetC')


@row('symm', _SYMM_KW)
def symm(a):
    return _symm(a, {'d': 'dsymm_', 'z': 'zsymm_'})


@row('hemm', _SYMM_KW)
def hemm(a):
    return _symm(a, {'d': 'dsymm_', 'z': 'zhemm_'})


def _rk(a, routine, trans_ok, two, real_alpha=False, real_beta=False):
    """rank-k (A) / rank-2k (A, B) update of the symmetric/Hermitian C of
    order n; A (and B) n by k if trans is 'N', k by n otherwise.
    "If k=0 this is interpreted as C := beta*C": still the BLAS call.
    trans_ok(id) -> documented alphabet of trans."""
    A, C = a.A, a.C
    N = a.trans == ch('N')
    n = dflt(a.n, z3.If(N, A.nrows, A.ncols))
    k = dflt(a.k, z3.If(N, A.ncols, A.nrows))
    ldA = ldflt(a.ldA, zmax(1, A.nrows))
    ldC = ldflt(a.ldC, zmax(1, C.nrows))
    nq = n != 0
    ra, ca = z3.If(N, n, k), z3.If(N, k, n)
    rej = [bad_flag('uplo', a.uplo, 'LU'),
           # the alphabet depends on the typecode, so it is a mandatory
           # reason only for matrices that have one of the two typecodes
           # For real matrices transposition and conjugate transposition
           # coincide (the reference d-routines accept both letters), so a
           # call with the other letter computes the documented operation:
           # it may be rejected (documented alphabet) but need not be.
           ('trans not in the alphabet documented for the typecode',
            z3.Not(trans_ok(A.id, a.trans)), A.id == 2),
           ("trans not in 'N','T','C'", z3.Not(isin(a.trans, 'NTC')),
            A.id == 1),
           ("ldA < max(1,(trans=='N') ? n : k)", ldA < zmax(1, ra), nq),
           ('ldC < max(1,n)', ldC < zmax(1, n), nq)]
    rej += mat_rejects('A', A, a.offsetA, ra, ca, ldA, nq)
    ints = {'uplo': a.uplo, 'trans': a.trans, 'n': n, 'k': k, 'lda': ldA,
            'ldc': ldC}
    ptrs = {'A': ('A', a.offsetA), 'C': ('C', a.offsetC)}
    mats = ['A', 'C']
    if two:
        B = a.B
        ldB = ldflt(a.ldB, zmax(1, B.nrows))
        rej += [('default n != ((trans==\'N\') ? B.size[0] : B.size[1])',
                 z3.And(a.n < 0, n != z3.If(N, B.nrows, B.ncols))),
                ('default k != ((trans==\'N\') ? B.size[1] : B.size[0])',
                 z3.And(a.k < 0, k != z3.If(N, B.ncols, B.nrows)), nq),
                ("ldB < max(1,(trans=='N') ? n : k)", ldB < zmax(1, ra), nq)]
        rej += mat_rejects('B', B, a.offsetB, ra, ca, ldB, nq)
        ints['ldb'] = ldB
        ptrs['B'] = ('B', a.offsetB)
        mats = ['A', 'B', 'C']
    rej += mat_rejects('C', C, a.offsetC, n, n, ldC, nq)
    al = a.scalar('alpha', 1)
    be = a.scalar('beta', 0)
    return Spec(mats, rej,
                [Call(routine, ints=ints, ptrs=ptrs,
                      scalars={'alpha': al[0] if real_alpha else al,
                               'beta': be[0] if real_beta else be})],
                outputs=[('C', a.offsetC, ge_extent(n, n, ldC))],
                noop=(n == 0),
                type_rejects=[
                    z3.And(nq, a.scalar_bad(
                        'alpha', REAL if real_alpha else A.id)),
                    z3.And(nq, a.scalar_bad(
                        'beta', REAL if real_beta else A.id))])


_RK_KW = 'A C uplo trans alpha beta n k ldA ldC offsetA offsetC'
_R2K_KW = ('A B C uplo trans alpha beta n k ldA ldB ldC offsetA offsetB '
           'offsetC')


# (the first line of doc_syrk/doc_herk ends "offsetA=0, offsetB=0"; there is
# no B: the ARGUMENTS list has offsetC)
@row('syrk', _RK_KW)
def syrk(a):
    # trans 'N' or 'T' (doc string and blas.rst)
    return _rk(a, {'d': 'dsyrk_', 'z': 'zsyrk_'},
               lambda i, t: isin(t, 'NT'), False)


@row('herk', _RK_KW)
def herk(a):
    # trans 'N' or 'C'; blas.rst: "alpha and beta must be real" (doc_herk:
    # alpha "real number", and the reference ZHERK takes both as doubles)
    return _rk(a, {'d': 'dsyrk_', 'z': 'zherk_'},
               lambda i, t: isin(t, 'NC'), False, real_alpha=True,
               real_beta=True)


@row('syr2k', _R2K_KW)
def syr2k(a):
    # trans 'N', 'T' or 'C' ('C' is only allowed in the real case)
    return _rk(a, {'d': 'dsyr2k_', 'z': 'zsyr2k_'},
               lambda i, t: z3.If(i == 1, isin(t, 'NTC'), isin(t, 'NT')),
               True)


# blas.rst: her2k(A, B, C[, uplo='L', trans='N', alpha=1.0, beta=0.0]); the
# first line of doc_her2k puts alpha, beta before uplo, trans -- its ARGUMENTS
# list and the manual agree on uplo, trans, alpha, beta; that order is taken.
@row('her2k', _R2K_KW)
def her2k(a):
    # trans 'N' or 'C'; "beta real number (int or float)"
    return _rk(a, {'d': 'dsyr2k_', 'z': 'zher2k_'},
               lambda i, t: isin(t, 'NC'), True, real_beta=True)


def _trm(a, routine):
    """trmm/trsm: B := alpha*op(A)*B, alpha*B*op(A) (or with op(A)^{-1});
    B m by n, A triangular of order m (side 'L') or n (side 'R')"""
    A, B = a.A, a.B
    L = a.side == ch('L')
    m = dflt(a.m, z3.If(L, A.nrows, B.nrows))
    n = dflt(a.n, z3.If(L, B.ncols, A.nrows))
    ka = z3.If(L, m, n)
    ldA = ldflt(a.ldA, zmax(1, A.nrows))
    ldB = ldflt(a.ldB, zmax(1, B.nrows))
    quick = z3.Or(m == 0, n == 0)
    nq = z3.Not(quick)
    rej = [bad_flag('side', a.side, 'LR'), bad_flag('uplo', a.uplo, 'LU'),
           # blas.rst and PURPOSE: 'N', 'T', 'C'
           bad_flag('transA', a.transA, 'NTC'),
           bad_flag('diag', a.diag, 'NU'),
           ("default m, side 'L': m != A.size[1]",
            z3.And(a.m < 0, L, m != A.ncols)),
           ("default n, side 'R': n != A.size[1]",
            z3.And(a.n < 0, a.side == ch('R'), n != A.ncols)),
           ("ldA < max(1,(side=='L') ? m : n)", ldA < zmax(1, ka), nq),
           ('ldB < max(1,m)', ldB < zmax(1, m), nq)]
    rej += mat_rejects('A', A, a.offsetA, ka, ka, ldA, nq)
    rej += mat_rejects('B', B, a.offsetB, m, n, ldB, nq)
    return Spec(['A', 'B'], rej,
                [Call(routine,
                      ints={'side': a.side, 'uplo': a.uplo,
                            'transa': a.transA, 'diag': a.diag, 'm': m,
                            'n': n, 'lda': ldA, 'ldb': ldB},
                      ptrs={'A': ('A', a.offsetA), 'B': ('B', a.offsetB)},
                      scalars={'alpha': a.scalar('alpha', 1)})],
                outputs=[('B', a.offsetB, ge_extent(m, n, ldB))],
                noop=quick,
                type_rejects=[z3.And(nq, a.scalar_bad('alpha', A.id))])


_TRM_KW = 'A B side uplo transA diag alpha m n ldA ldB offsetA offsetB'


@row('trmm', _TRM_KW)
def trmm(a):
    return _trm(a, {'d': 'dtrmm_', 'z': 'ztrmm_'})


@row('trsm', _TRM_KW)
def trsm(a):
    return _trm(a, {'d': 'dtrsm_', 'z': 'ztrsm_'})


# ------------------------------------------------ value of complex dot / dotu
def _signed_terms(t, sign=1, imag=False, out=None):
    """flattens a sum built from the engine's uninterpreted fadd / fsub /
    fmul(_Complex_I, .) into [(term, sign, imaginary?)]"""
    out = [] if out is None else out
    nm = t.decl().name() if z3.is_app(t) else ''
    if nm == 'fadd' and t.num_args() == 2:
        _signed_terms(t.arg(0), sign, imag, out)
        _signed_terms(t.arg(1), sign, imag, out)
    elif nm == 'fsub' and t.num_args() == 2:
        _signed_terms(t.arg(0), sign, imag, out)
        _signed_terms(t.arg(1), -sign, imag, out)
    elif nm == 'fmul' and t.num_args() == 2 and any(
            str(t.arg(i)) == '_Complex_I' for i in (0, 1)):
        other = t.arg(1) if str(t.arg(0)) == '_Complex_I' else t.arg(0)
        if imag:
            out.append((t, sign, imag))      # i*i: not expected
        else:
            _signed_terms(other, sign, True, out)
    else:
        out.append((t, sign, imag))
    return out


def complex_dot_value(conjugate):
    """the complex inner product computed with four real dot products on the
    interleaved storage: x^H y = (xr.yr + xi.yi) + i (xr.yi - xi.yr) for dot,
    x^T y = (xr.yr - xi.yi) + i (xr.yi + xi.yr) for dotu; each of the four
    calls is identified by the parity of its operand addresses"""
    def post(ex, finished, extra_obs):
        from engine.cvc.exec import Oblig, FltV, NULL
        n = 0
        for st, kind, val in finished:
            if kind != 'return' or val is NULL or getattr(
                    val, 'obj', None) is None:
                continue
            cv = val.obj.extra.get('cval')
            recs = [r for r in st.calls if r.name == 'ddot_' and getattr(
                r, 'ret', None) is not None]
            if not cv or len(recs) != 4 or not isinstance(cv[0], FltV):
                continue
            n += 1
            cls = {}
            okc = True
            for r in recs:
                px, py = r.args['ptrs']['x'], r.args['ptrs']['y']
                # element offsets are in doubles: even = real part
                ex_ = ex.check(r.pc, [px.off % 16 != 0]) == z3.unsat
                ox_ = ex.check(r.pc, [px.off % 16 != 8]) == z3.unsat
                ey_ = ex.check(r.pc, [py.off % 16 != 0]) == z3.unsat
                oy_ = ex.check(r.pc, [py.off % 16 != 8]) == z3.unsat
                if not ((ex_ or ox_) and (ey_ or oy_)):
                    okc = False
                    continue
                cls[('r' if ex_ else 'i') + ('r' if ey_ else 'i')] = \
                    r.ret.t.sexpr()
            want = {('rr', 1, False), ('ii', 1 if conjugate else -1, False),
                    ('ri', 1, True), ('ir', -1 if conjugate else 1, True)}
            got = set()
            inv = {v: k for k, v in cls.items()}
            for t, sg, im in _signed_terms(cv[0].t):
                got.add((inv.get(t.sexpr(), t.sexpr()), sg, im))
            ok = okc and len(cls) == 4 and got == want
            text = ('the complex value returned is (xr.yr %s xi.yi) + i '
                    '(xr.yi %s xi.yr), each real inner product taken on the '
                    'real / imaginary parts its operand addresses select' % (
                        ('+', '-') if conjugate else ('-', '+')))
            extra_obs.append(Oblig('%s:value:%s' % (ex.fname, text), 'value',
                                   list(st.path()), z3.BoolVal(ok), text,
                                   recs[0].line))
        return n
    return post


VALUE_POSTS = {'dot': complex_dot_value(True),
               'dotu': complex_dot_value(False)}
