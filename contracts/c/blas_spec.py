"""Specification rows for the wrappers of src/C/blas.c (DESIGN C17).

Written from the user documentation: doc/source/blas.rst for the operation,
the flag alphabets and which argument is the output, and the per-function
argument descriptions (the doc strings, which are what `help(blas.f)` shows
and what blas.rst refers the reader to for n/inc/ld/offset) for the defaults,
and from the netlib BLAS documentation for the expected Fortran call.  NOT
derived from the wrapper bodies.

Row: row(a) -> Spec;  `a.<name>` is the parsed Python-level argument.
"""
import z3
from engine.cvc.wrapspec import (Spec, Call, vec_extent, ge_extent, default_n,
                                 zabs, zmax, zmin, isin, ch)
from engine.cvc.exec import (IntV, FltV, PtrV, StructV, Impure, toint,
                             Unsupported)

ROWS = {}
KW = {}


def row(name, kw):
    def deco(f):
        ROWS[name] = f
        KW[name] = kw.split()
        return f
    return deco


# ------------------------------------------------------------------------
# contract of the file-local helper number_from_pyobject(o, &a, id):
#   returns 0 and stores the value of o in a->d (id DOUBLE; o must be an int
#   or float) or a->z (id COMPLEX; o int, float or complex); returns -1 and
#   stores nothing otherwise.   (verified separately: blas.c:number_from_
#   pyobject is a leaf function whose body is this case split.)
def number_from_pyobject(ex, st, n, args):
    if st.pure:
        raise Impure()
    o = ex.ev(args[0], st)
    a = ex.ev(args[1], st)
    i = toint(ex.ev(args[2], st))
    if not (isinstance(o, PtrV) and o.obj is not None):
        raise Unsupported('number_from_pyobject on %r' % (o,))
    if o.null is not None:
        ex.oblige(st, 'deref', z3.Not(o.null), n,
                  text='number_from_pyobject(%s) on possibly-NULL' %
                  o.obj.name)
    nm = o.obj.name
    isreal = z3.Bool('isreal(%s)' % nm)
    iscplx = z3.Bool('iscplx(%s)' % nm)
    ex.axioms.append(z3.Implies(isreal, iscplx))
    d1 = ex.decide(st, i.t == 1)
    d2 = ex.decide(st, i.t == 2)
    if d1 is True:
        ok = isreal
        v = StructV('number', {'d': FltV(z3.Real('re(%s)' % nm), 'double')})
    elif d2 is True:
        ok = iscplx
        v = StructV('number', {'z': FltV(z3.Real('cplx(%s)' % nm),
                                         'complex')})
    else:
        ok = z3.If(i.t == 1, isreal, z3.And(i.t == 2, iscplx))
        v = StructV('number', {'d': FltV(z3.Real('re(%s)' % nm), 'double'),
                               'z': FltV(z3.Real('cplx(%s)' % nm),
                                         'complex')})
    errs = list(st.ghost.get('scalar_errs', []))
    errs.append(z3.Not(ok))
    st.ghost['scalar_errs'] = errs
    ex.store_through(a, v, st, n)
    return IntV(z3.If(ok, 0, -1), 'int')


LOCAL_EXTERNS = {'number_from_pyobject': number_from_pyobject}


def std_vec_rejects(a, pairs, n):
    """pairs: [(mat, off, inc)] ; documented: inc nonzero/positive handled by
    caller; offsets nonnegative; buffer long enough for n elements"""
    out = []
    for (m, off, inc, nm) in pairs:
        out.append(('offset of %s negative' % nm, off < 0))
        out.append(('length of %s too small' % nm,
                    z3.And(n > 0, m.len < off + 1 + (n - 1) * zabs(inc))))
    return out


# ---------------------------------------------------------------- level 1
@row('swap', 'x y n incx incy offsetx offsety')
def swap(a):
    x, y = a.x, a.y
    dx = default_n(x.len, a.offsetx, a.incx)
    dy = default_n(y.len, a.offsety, a.incy)
    n = z3.If(a.n < 0, dx, a.n)
    rej = [('incx zero', a.incx == 0), ('incy zero', a.incy == 0),
           ('unequal default lengths', z3.And(a.n < 0, dx != dy))]
    rej += std_vec_rejects(a, [(x, a.offsetx, a.incx, 'x'),
                               (y, a.offsety, a.incy, 'y')], n)
    return Spec(['x', 'y'], rej,
                [Call({'d': 'dswap_', 'z': 'zswap_'},
                      ints={'n': n, 'incx': a.incx, 'incy': a.incy},
                      ptrs={'x': ('x', a.offsetx), 'y': ('y', a.offsety)})],
                outputs=[('x', a.offsetx, vec_extent(n, a.incx)),
                         ('y', a.offsety, vec_extent(n, a.incy))],
                noop=(n == 0))


@row('scal', 'alpha x n inc offset')
def scal(a):
    x = a.x
    n = z3.If(a.n < 0, default_n(x.len, a.offset, a.inc), a.n)
    rej = [('inc not positive', a.inc <= 0)]
    rej += std_vec_rejects(a, [(x, a.offset, a.inc, 'x')], n)
    re, cz = a.reqscalar('alpha')
    isreal = z3.Bool('isreal(alpha)')
    ints = {'n': n, 'incx': a.inc}
    ptrs = {'x': ('x', a.offset)}
    return Spec(['x'], rej,
                [Call('dscal_', when=x.id == 1, ints=ints, ptrs=ptrs,
                      scalars={'alpha': re}),
                 Call('zdscal_', when=z3.And(x.id == 2, isreal), ints=ints,
                      ptrs=ptrs, scalars={'alpha': re}),
                 Call('zscal_', when=z3.And(x.id == 2, z3.Not(isreal)),
                      ints=ints, ptrs=ptrs, scalars={'alpha': cz})],
                outputs=[('x', a.offset, vec_extent(n, a.inc))],
                noop=(n == 0),
                type_rejects=[z3.And(n != 0, z3.Not(z3.Bool(
                    'iscplx(alpha)'))),
                    z3.And(n != 0, x.id == 1, z3.Not(isreal))])


# ---------------------------------------------------------------- level 2
@row('gemv', 'A x y trans alpha beta m n ldA incx incy offsetA offsetx '
     'offsety')
def gemv(a):
    A, x, y = a.A, a.x, a.y
    m = z3.If(a.m < 0, A.nrows, a.m)
    n = z3.If(a.n < 0, A.ncols, a.n)
    ldA = z3.If(a.ldA == 0, zmax(1, A.nrows), a.ldA)
    N = a.trans == ch('N')
    lx = z3.If(N, n, m)
    ly = z3.If(N, m, n)
    # blas.rst: returns immediately if n=0 and trans is 'T'/'C', or m=0 and
    # trans is 'N'; computes y := beta*y if n=0,m>0,'N' or m=0,n>0,'T'/'C'
    quick = ly == 0
    scal_only = z3.And(ly > 0, lx == 0)
    nq = z3.Not(quick)
    rej = [("trans not in 'N','T','C'", z3.Not(isin(a.trans, 'NTC'))),
           ('incx zero', a.incx == 0), ('incy zero', a.incy == 0),
           ('ldA < max(1,m)', ldA < zmax(1, m), nq),
           ('offsetA negative', a.offsetA < 0, nq),
           ('A too small', z3.And(m > 0, n > 0,
                                  a.offsetA + (n - 1) * ldA + m > A.len), nq),
           ('offsetx negative', a.offsetx < 0, nq),
           ('x too small', z3.And(lx > 0, a.offsetx + (
               lx - 1) * zabs(a.incx) + 1 > x.len), nq),
           ('offsety negative', a.offsety < 0, nq),
           ('y too small', a.offsety + (
               ly - 1) * zabs(a.incy) + 1 > y.len, nq)]
    al = a.scalar('alpha', 1)
    be = a.scalar('beta', 0)
    return Spec(['A', 'x', 'y'], rej,
                [Call({'d': 'dgemv_', 'z': 'zgemv_'},
                      when=z3.Not(scal_only),
                      ints={'trans': a.trans, 'm': m, 'n': n, 'lda': ldA,
                            'incx': a.incx, 'incy': a.incy},
                      ptrs={'A': ('A', a.offsetA), 'x': ('x', a.offsetx),
                            'y': ('y', a.offsety)},
                      scalars={'alpha': al, 'beta': be}),
                 # y := beta*y on the addressed view of y
                 Call({'d': 'dscal_', 'z': 'zscal_'}, when=scal_only,
                      ints={'n': ly},
                      ptrs={'x': ('y', a.offsety)},
                      scalars={'alpha': be})],
                outputs=[('y', a.offsety, vec_extent(ly, a.incy))],
                noop=quick,
                type_rejects=[z3.And(nq, a.scalar_bad('alpha', A.id)),
                              z3.And(nq, a.scalar_bad('beta', A.id))])
