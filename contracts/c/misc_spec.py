"""misc_solvers.c: the kernel misc.symm against its definition.

The Python-side properties C01-C04 use, as an assumed library contract, that
misc.symm(x, n, offset) makes the n by n block of x that starts at `offset`
symmetric by copying its strictly lower triangle into its strictly upper
triangle and touches nothing else.  Here that contract is discharged on the C
code that runs (use_C = True): every dcopy_ call made by the wrapper copies
column k below the diagonal, x[offset + (k+1+t) + k*n], t = 0..n-k-2, to row
k right of the diagonal, x[offset + k + (k+1+t)*n] -- for every k, as VCs
over the loop counter.

NOT covered: the argument validation of the kernels (they trust their
arguments: missing type and length checks are memory-safety findings of C19's
class, not claimed here), all other kernels of misc_solvers.c (C08).
"""
import z3
from engine.cvc.exec import Oblig, PtrV, IntV, NULL, Unsupported, toint
from engine.cvc import driver


def post_symm(ex, finished, extra_obs):
    def ob(kind, pc, goal, text, line=0):
        extra_obs.append(Oblig('%s:%s:%s' % (ex.fname, kind, text), kind,
                               list(pc), z3.simplify(goal) if not isinstance(
                                   goal, bool) else z3.BoolVal(goal), text,
                               line))
    ncalls = 0
    nret = 0
    for st, kind, val in finished:
        parsed = st.ghost.get('parsed', {})
        if 'x' not in parsed or 'n' not in parsed:
            continue
        x, n = parsed['x'], parsed['n']
        off = parsed.get('offset')
        if off is None:
            continue
        xb = x.buffer_region()
        if not (val is NULL):
            nret += 1
        for rec in st.calls:
            if rec.name != 'dcopy_':
                ob('call-correspondence', rec.pc, False,
                   'misc.symm only calls dcopy_ (got %s)' % rec.name,
                   rec.line)
                continue
            ncalls += 1
            ints, ptrs = rec.args['ints'], rec.args['ptrs']
            src, dst = ptrs.get('x'), ptrs.get('y')
            if not (isinstance(src, PtrV) and isinstance(dst, PtrV)) or \
                    src.region is not xb or dst.region is not xb:
                ob('call-correspondence', rec.pc, False,
                   'both operands of the copy are inside x', rec.line)
                continue
            # witnesses for the column index k: the integer program variables
            goal = None
            cands = [v.t for v in st.vars.values() if isinstance(v, IntV)]
            for kv in cands:
                g = z3.And(kv >= 0, kv < n,
                           ints['n'] == n - kv - 1,
                           src.off == 8 * (off + (kv + 1) + kv * n),
                           ints['incx'] == 1,
                           dst.off == 8 * (off + kv + (kv + 1) * n),
                           ints['incy'] == n)
                if ex.check(rec.pc, [z3.Not(g)]) == z3.unsat:
                    goal = g
                    break
            if goal is None:
                kq = z3.Int('k?')
                goal = z3.Exists([kq], z3.And(
                    kq >= 0, kq < n, ints['n'] == n - kq - 1,
                    src.off == 8 * (off + (kq + 1) + kq * n),
                    ints['incx'] == 1,
                    dst.off == 8 * (off + kq + (kq + 1) * n),
                    ints['incy'] == n))
            ob('symm-definition', rec.pc, goal,
               'every copy made by misc.symm moves column k below the '
               'diagonal of the block at `offset` onto row k right of the '
               'diagonal', rec.line)
    ob('covered', [], z3.BoolVal(ncalls > 0 and nret > 0),
       'the copy loop and a normal return are reached')
    return {'ncalls': ncalls}


FUNCS = {'symm': {'init': driver.pycfunction_init, 'post': post_symm,
                  'config': {}}}
