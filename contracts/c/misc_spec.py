"""misc_solvers.c: the kernel misc.symm against its definition.

The Python-side properties C01-C04 use, as an assumed library contract, that
misc.symm(x, n, offset) makes the n by n block of x that starts at `offset`
symmetric by copying its strictly lower triangle into its strictly upper
triangle and touches nothing else.  Here that contract is discharged on the C
code that runs (use_C = True): every dcopy_ call made by the wrapper copies
column k below the diagonal, x[offset + (k+1+t) + k*n], t = 0..n-k-2, to row
k right of the diagonal, x[offset + k + (k+1+t)*n] -- for every k, as VCs
over the loop counter.

NOT covered: the argument validation of the kernels (they trust their
arguments: missing type and length checks are memory-safety findings of C19's
class, not claimed here), all other kernels of misc_solvers.c (C08).
"""
import z3
from engine.cvc.exec import Oblig, PtrV, IntV, NULL, Unsupported, toint
from engine.cvc import driver


def post_symm(ex, finished, extra_obs):
    def ob(kind, pc, goal, text, line=0):
        extra_obs.append(Oblig('%s:%s:%s' % (ex.fname, kind, text), kind,
                               list(pc), z3.simplify(goal) if not isinstance(
                                   goal, bool) else z3.BoolVal(goal), text,
                               line))
    ncalls = 0
    nret = 0
    for st, kind, val in finished:
        parsed = st.ghost.get('parsed', {})
        if 'x' not in parsed or 'n' not in parsed:
            continue
        x, n = parsed['x'], parsed['n']
        off = parsed.get('offset')
        if off is None:
            continue
        xb = x.buffer_region()
        if not (val is NULL):
            nret += 1
        for rec in st.calls:
            if rec.name != 'dcopy_':
                ob('call-correspondence', rec.pc, False,
                   'misc.symm only calls dcopy_ (got %s)' % rec.name,
                   rec.line)
                continue
            ncalls += 1
            ints, ptrs = rec.args['ints'], rec.args['ptrs']
            src, dst = ptrs.get('x'), ptrs.get('y')
            if not (isinstance(src, PtrV) and isinstance(dst, PtrV)) or \
                    src.region is not xb or dst.region is not xb:
                ob('call-correspondence', rec.pc, False,
                   'both operands of the copy are inside x', rec.line)
                continue
            # witnesses for the column index k: the integer program variables
            goal = None
            cands = [v.t for v in st.vars.values() if isinstance(v, IntV)]
            for kv in cands:
                g = z3.And(kv >= 0, kv < n,
                           ints['n'] == n - kv - 1,
                           src.off == 8 * (off + (kv + 1) + kv * n),
                           ints['incx'] == 1,
                           dst.off == 8 * (off + kv + (kv + 1) * n),
                           ints['incy'] == n)
                if ex.check(rec.pc, [z3.Not(g)]) == z3.unsat:
                    goal = g
                    break
            if goal is None:
                kq = z3.Int('k?')
                goal = z3.Exists([kq], z3.And(
                    kq >= 0, kq < n, ints['n'] == n - kq - 1,
                    src.off == 8 * (off + (kq + 1) + kq * n),
                    ints['incx'] == 1,
                    dst.off == 8 * (off + kq + (kq + 1) * n),
                    ints['incy'] == n))
            ob('symm-definition', rec.pc, goal,
               'every copy made by misc.symm moves column k below the '
               'diagonal of the block at `offset` onto row k right of the '
               'diagonal', rec.line)
    ob('covered', [], z3.BoolVal(ncalls > 0 and nret > 0),
       'the copy loop and a normal return are reached')
    return {'ncalls': ncalls}


# ------------------------------------------------ CPython container API
def _detkey(st, n, tag):
    key = (tag, n.get('line'), (n.get('off') or (0, 0))[0])
    cnt = st.ghost.get(key, 0)
    st.ghost[key] = cnt + 1
    return '%s@%s.%s#%d' % (tag, key[1], key[2], cnt)


def dict_getitemstring(ex, st, n, args):
    """PyDict_GetItemString(d, "key"): NULL (no exception) when the key is
    absent, else the (borrowed) value; the same key gives the same object"""
    d = ex.ev(args[0], st)
    k = ex.ev(args[1], st)
    from engine.cvc.exec import StrV, PyObj
    if not isinstance(d, PtrV) or d.obj is None or not isinstance(k, StrV):
        raise Unsupported('PyDict_GetItemString of %r' % (d,))
    key = 'dict[%s]' % k.s
    it = d.obj.extra.get(key)
    if it is None:
        it = ex.new_obj('%s[%s]' % (d.obj.name, k.s))
        d.obj.extra[key] = it
    absent = z3.Bool('absent(%s)' % it.name)
    return PtrV(None, 0, 'PyObject', null=absent, obj=it)


def list_size(ex, st, n, args):
    p = ex.ev(args[0], st)
    if not isinstance(p, PtrV) or p.obj is None:
        raise Unsupported('PyList_Size of %r' % (p,))
    ln = p.obj.extra.setdefault('seqlen', z3.Int('len(%s)' % p.obj.name))
    ex.axioms.append(ln >= 0)
    return IntV(ln, 'long')


def list_getitem(ex, st, n, args):
    """PyList_GetItem(l, i): the item (some object named by the site)"""
    p = ex.ev(args[0], st)
    if not isinstance(p, PtrV) or p.obj is None:
        raise Unsupported('PyList_GetItem of %r' % (p,))
    nm = '%s[%s]' % (p.obj.name, _detkey(st, n, 'item'))
    it = ex.objs.get(nm) or ex.new_obj(nm)
    return PtrV(None, 0, 'PyObject', obj=it)


def long_aslong(ex, st, n, args):
    p = ex.ev(args[0], st)
    if isinstance(p, PtrV) and p.obj is not None:
        v = p.obj.extra.setdefault('pyint', z3.Int('pyint(%s)' % p.obj.name))
        return IntV(v, 'long')
    raise Unsupported('PyLong_AsLong of %r' % (p,))


def float_asdouble(ex, st, n, args):
    from engine.cvc.exec import FltV
    p = ex.ev(args[0], st)
    if isinstance(p, PtrV) and p.obj is not None:
        return FltV(z3.Real('pyfloat(%s)' % p.obj.name), 'double')
    raise Unsupported('PyFloat_AsDouble of %r' % (p,))


def assumed_mutates(fn):
    """what the Python-side contracts (contracts/py/extern_cvxopt.py) assume
    misc.<fn> may modify: the frame that C09's argument isolation rests on"""
    from contracts.py.extern_cvxopt import LIB
    name = 'cvxopt.misc.' + fn
    if name in LIB.pure:
        return set()
    m = LIB.mutators.get(name)
    if m is None:
        return None
    return set(x.split()[0] for x in m)


def post_frame(ex, finished, extra_obs):
    """kernel-frame: every store of the kernel goes into the buffer of an
    argument the Python-side contract lists as modified, or into the kernel's
    own work space"""
    def ob(kind, pc, goal, text, line=0):
        extra_obs.append(Oblig('%s:%s:%s' % (ex.fname, kind, text), kind,
                               list(pc), z3.BoolVal(bool(goal)), text, line))
    allowed = assumed_mutates(ex.fname)
    if allowed is None:
        raise Unsupported('no Python-side frame contract for misc.%s' %
                          ex.fname)
    nst = 0
    seen = set()
    for st, kind, val in finished:
        parsed = st.ghost.get('parsed', {})
        ok_regions = {}
        for nm in allowed:
            o = parsed.get(nm)
            if o is not None and hasattr(o, 'buffer_region'):
                ok_regions[id(o.buffer_region())] = nm
        for srec in st.stores:
            r = srec[0]
            line = srec[4]
            if r.kind in ('malloc', 'local', 'localfield'):
                continue
            nst += 1
            key = (r.name, line, id(r) in ok_regions)
            if key in seen:
                continue
            seen.add(key)
            ob('kernel-frame', srec[3], id(r) in ok_regions,
               'the store at line %s goes into an argument that misc.%s is '
               'assumed to modify (%s); it goes into %s' % (
                   line, ex.fname, ', '.join(sorted(allowed)) or 'none',
                   r.name), line)
    ob('covered', [], True, 'paths of misc.%s were executed' % ex.fname)
    return {'stores': nst}


KERNEL_EXTERNS = {
    'PyDict_GetItemString': dict_getitemstring, 'PyList_Size': list_size,
    'PyList_GET_SIZE': list_size, 'PyList_GetItem': list_getitem,
    'PyList_GET_ITEM': list_getitem, 'PyLong_AsLong': long_aslong,
    'PyLong_AS_LONG': long_aslong, 'PyFloat_AsDouble': float_asdouble,
    'PyFloat_AS_DOUBLE': float_asdouble}


FUNCS = {'symm': {'init': driver.pycfunction_init, 'post': post_symm,
                  'config': {}}}
for _f in ('scale', 'scale2', 'pack', 'pack2', 'unpack', 'sprod', 'sinv',
           'trisc', 'triusc', 'sdot', 'max_step'):
    FUNCS[_f] = {'init': driver.pycfunction_init, 'post': post_frame,
                 'config': {}, 'externs': KERNEL_EXTERNS}
