"""misc_solvers.c: the cone kernels against their definitions (property C08).

What is stated and discharged here, on the C code that runs (use_C = True),
for symm, trisc, triusc, pack, unpack and sdot:

* DEFINITION AS BLOCK OPERATIONS.  The documentation of each kernel is written
  down as a set of *call families*: "for every 's' block k and every column j
  of it, copy / scale / multiply-accumulate the n-j entries of column j below
  (or right of) the diagonal", with the block offsets given by ghost functions
  that are defined by recursion over dims:

      Q(0) = 0,  Q(i+1)  = Q(i)  + q_i              (second-order blocks)
      SQ(0) = 0, SQ(k+1) = SQ(k) + s_k * s_k        (unpacked 's' blocks)
      TP(0) = 0, TP(k+1) = TP(k) + s_k (s_k + 1)/2  (packed 's' blocks)

  Obligations (VCs from the clang AST of the current source, loops by the
  invariant rule with the sidecar invariants below, discharged by z3):
    - kernel-definition: every BLAS call / store the kernel makes is an
      instance of exactly one family, with the documented operand addresses,
      lengths, strides and scaling factor, for a block index and a column
      index inside the documented ranges (the witnesses are found among the
      program's integer variables);
    - loop-invariant: the running offsets (ox, iu, ip, m, np) equal the ghost
      offsets at the head of every iteration (entry + preservation);
    - iteration-space: each loop of a nest runs over exactly the documented
      index range with unit steps and without early exit, every family is
      instantiated by exactly one unconditional call site of the nest -- so
      each documented block operation is performed exactly once;
    - accumulate (sdot): the value returned is the running sum of the
      documented partial inner products, off-diagonal ones doubled.
* LEMMAS over the family definitions (pure arithmetic, no code): the entries
  addressed by the families of a kernel are exactly the documented part of
  the block (strict upper / strict lower triangle / lower triangle incl.
  diagonal), each entry once, all inside the block [B_k, B_k + s_k^2) --
  "touches nothing outside the addressed blocks"; the composite scaling
  factor of pack followed by unpack is 1 on every entry of the lower
  triangle and the two kernels use the same address pairs (unpack undoes
  pack).

Preconditions (requires): dims is a dict with integer 'l' and lists 'q', 's'
of non-negative integers; arithmetic does not overflow `int` (the no-overflow
and argument-validation obligations of these kernels are C19's class -- the
kernels validate nothing, DESIGN 5 D7 -- and are not claimed here).

TRUSTED: the reference-BLAS meaning of dcopy_/dscal_/ddot_/dlacpy_ on the
strided views they are given (contracts/c/extern_blas.py, extern_lapack.py);
floats as reals.

pack2 (added later): the in-place packing of every column of a matrix through
a calloc'ed work block; families rows-to-work / scale-work-rows /
work-to-packed with the leading dimension of the work block tied to the ghost
running maximum MX(k) = max(0, s_0, ..., s_{k-1}).

NOT decided here: scale, scale2, sprod, sinv, max_step (value identities
through data-dependent arithmetic); the Python kernels sgemv, ssqr, jdot,
jnrm2, snrm2 are in contracts/py/misc_kernels_spec.py; the pure-Python
fall-backs in misc.py are dead code while use_C = True.
"""
import itertools
import z3
from engine.cvc.exec import (Oblig, PtrV, IntV, FltV, NULL, Unsupported,
                             toint, PyObj)
from engine.cvc import driver
from contracts.c import misc_spec

I = z3.IntSort()
Qf = z3.Function('Q', I, I)
SQf = z3.Function('SQ', I, I)
TPf = z3.Function('TP', I, I)
MXf = z3.Function('MX', I, I)      # MX(k) = max(0, s_0, ..., s_{k-1})
SQRT2 = z3.Function('sqrt', z3.RealSort(), z3.RealSort())(z3.RealVal(2))
# the engine does not interpret floating-point arithmetic: a / b is the term
# fdiv(a, b) etc., so the factors below are compared as the code computes them
_R = z3.RealSort()
FDIV = z3.Function('fdiv', _R, _R, _R)
FMUL = z3.Function('fmul', _R, _R, _R)
FADD = z3.Function('fadd', _R, _R, _R)


def elemf(listname):
    return z3.Function('elem(%s)' % listname, I, I)


qf = elemf('dims[q]')
sf = elemf('dims[s]')
NQ = z3.Int('len(dims[q])')
NS = z3.Int('len(dims[s])')
L = z3.Int('pyint(dims[l])')


# --------------------------------------------------- externs of the kernels
def list_getitem_indexed(ex, st, n, args):
    """PyList_GetItem(l, i): the item as a function of the index (ghost
    sequence elem(l)), so that contracts can speak about l[i]"""
    p = ex.ev(args[0], st)
    i = ex.ev(args[1], st)
    if not isinstance(p, PtrV) or p.obj is None:
        raise Unsupported('PyList_GetItem of %r' % (p,))
    nm = '%s[%s]' % (p.obj.name, misc_spec._detkey(st, n, 'item'))
    it = ex.objs.get(nm) or ex.new_obj(nm)
    it.extra['pyint'] = elemf(p.obj.name)(toint(i).t)
    return PtrV(None, 0, 'PyObject', obj=it)


EXTERNS = dict(misc_spec.KERNEL_EXTERNS)
EXTERNS['PyList_GetItem'] = list_getitem_indexed
EXTERNS['PyList_GET_ITEM'] = list_getitem_indexed


# ------------------------------------------------ ghost definitions (unfolded)
def unfold(ex, t):
    """instances of the recursive definitions at index t (and the
    precondition that the entries of dims are non-negative there)"""
    key = ('unfold', t.get_id())
    done = ex.__dict__.setdefault('_unfolded', {})
    if key in done:
        return
    done[key] = t          # keeps the term alive
    sk = sf(t)
    ex.axioms.extend([
        Qf(0) == 0, SQf(0) == 0, TPf(0) == 0, MXf(0) == 0,
        MXf(t + 1) == z3.If(sk > MXf(t), sk, MXf(t)),
        Qf(t + 1) == Qf(t) + qf(t),
        SQf(t + 1) == SQf(t) + sk * sk,
        2 * (TPf(t + 1) - TPf(t)) == sk * (sk + 1),
        z3.Implies(z3.And(t >= 0, t < NS), sk >= 0),
        z3.Implies(z3.And(t >= 0, t < NQ), qf(t) >= 0),
        NQ >= 0, NS >= 0])


def ival(env, name):
    v = env[name]
    if not isinstance(v, IntV):
        raise KeyError('%s is not an integer variable' % name)
    return v.t


def parsed_int(st, name):
    v = st.ghost.get('parsed', {}).get(name)
    if v is None:
        raise KeyError('argument %s' % name)
    return v.t if isinstance(v, IntV) else v


# ------------------------------------------------------- kernel descriptions
class Fam:
    """a family of block operations.  args(C, w) -> dict of the documented
    actuals at witnesses w (block index, column index): integer/real actuals
    by BLAS parameter name, array actuals as (matrix argument, element
    offset).  kind 'call' (a BLAS routine) or 'store' (an element-wise store
    `m[at] := old(m[at]) * factor`)."""
    def __init__(self, name, routine, nest, nwit, dom, args, doc,
                 kind='call'):
        self.name, self.routine, self.nest = name, routine, nest
        self.nwit, self.dom, self.args, self.doc = nwit, dom, args, doc
        self.kind = kind


class Ctx:
    """terms of one run: parsed arguments"""
    def __init__(self, ex, parsed):
        self.ex, self.parsed = ex, parsed

    def arg(self, name):
        v = self.parsed.get(name)
        if v is None:
            raise KeyError('argument %s' % name)
        return v.t if isinstance(v, IntV) else v

    def buf(self, name):
        o = self.parsed.get(name)
        if o is None or not hasattr(o, 'buffer_region'):
            raise KeyError('matrix argument %s' % name)
        return o.buffer_region()


def match(C, fam, rec_ints, rec_scalars, rec_ptrs, w):
    """formula: the recorded call is the instance of `fam` at witnesses w"""
    want = fam.args(C, w)
    conj = [fam.dom(C, w)]
    for k, v in want.items():
        if isinstance(v, tuple) and v[0] == '@work':
            # the kernel's own work space (one calloc'ed block)
            p = rec_ptrs.get(k)
            if not isinstance(p, PtrV) or p.region is None or \
                    p.region.kind != 'malloc':
                return z3.BoolVal(False)
            conj.append(p.off == 8 * v[1])
        elif isinstance(v, tuple) and v[0] == '@string':
            p = rec_ptrs.get(k)
            if not isinstance(p, PtrV) or p.region is None or \
                    p.region.kind != 'string' or \
                    getattr(p.region, 'text', None) != v[1]:
                return z3.BoolVal(False)
        elif isinstance(v, tuple):
            p = rec_ptrs.get(k)
            if not isinstance(p, PtrV) or p.region is not C.buf(v[0]):
                return z3.BoolVal(False)
            conj.append(p.off == 8 * v[1])
        elif k in rec_ints:
            conj.append(rec_ints[k] == v)
        elif k in rec_scalars:
            sv = rec_scalars[k]
            if not isinstance(sv, FltV) or not z3.is_expr(sv.t):
                return z3.BoolVal(False)
            conj.append(sv.t == v)
        else:
            return z3.BoolVal(False)
    return z3.And(conj)


def counters_for(E, logs):
    """terms of the counters of the loop E and of its enclosing loops, with
    their neighbours +-1 (a column index j may be the code's i - 1)"""
    out = []
    if E is None:
        return out
    names = set(l_['counter'] for l_ in logs if l_['counter'])
    for nm in names:
        v = E['head_env'].get(nm)
        if isinstance(v, IntV):
            for d in (0, -1, 1):
                out.append(z3.simplify(v.t + d))
    return out


def innermost(logs, thing, key):
    best = None
    for E in logs:
        for b in E['body']:
            if any(t is thing for t in b[key]):
                if best is None or (E['ord'] or 0) > (best['ord'] or 0):
                    best = E
    return best


def post_kernel(ex, finished, extra_obs):
    spec = KERNELS[ex.fname]

    def ob(kind, pc, goal, text, line=0, force=None):
        extra_obs.append(Oblig(
            '%s:%s:%s' % (ex.fname, kind, text), kind, list(pc),
            z3.simplify(goal) if not isinstance(goal, bool) else
            z3.BoolVal(goal), text, line,
            {'force': force} if force else None))

    logs = ex.loop_log
    normal = [(st, val) for st, kind, val in finished
              if kind == 'return' and val is not NULL and
              st.ghost.get('parsed')]
    if not normal:
        ob('covered', [], False, 'a normal return of misc.%s is reached' %
           ex.fname)
        return {}
    C = Ctx(ex, normal[0][0].ghost['parsed'])
    fams = spec['families']
    # ---- iteration spaces
    for o, (lo_f, hi_f) in spec['space'].items():
        Es = [E for E in logs if E['ord'] == o]
        if not Es:
            ob('iteration-space', [], False, 'loop %d of misc.%s is reached'
               % (o, ex.fname), force='undecided')
        for E in Es:
            ln = E['line']
            if E['counter'] is None:
                ob('iteration-space', [], False,
                   'loop %d runs a counter up in unit steps' % o, ln)
                continue
            c = E['head_env'][E['counter']].t
            env = E['entry_env']
            unfold(ex, c)
            ob('iteration-space', E['entry_pc'], E['lo'] == lo_f(C, env),
               'loop %d starts at the documented index' % o, ln)
            ob('iteration-space', E['head_pc'],
               E['cond'] == (c < hi_f(C, env)),
               'loop %d runs up to the documented bound (exclusive)' % o, ln)
            ob('iteration-space', [], all(b['kind'] in ('fall', 'continue')
                                          for b in E['body']),
               'loop %d has no early exit' % o, ln)
    # ---- every call is an instance of one family
    calls = {}
    for st, val in normal:
        for r in st.calls:
            calls[id(r)] = r
    for E in logs:
        for b in E['body']:
            for r in b['calls']:
                calls[id(r)] = r
    site_of = {}
    for r in calls.values():
        E = innermost(logs, r, 'calls')
        cands = counters_for(E, logs)
        found = None
        for f in fams:
            if f.kind != 'call' or f.routine != r.name:
                continue
            if (E['ord'] if E else None) != f.nest:
                continue
            pools = [cands] * f.nwit
            for w in itertools.product(*pools):
                for t in w:
                    unfold(ex, t)
                g = match(C, f, r.args['ints'], r.args['scalars'],
                          r.args['ptrs'], w)
                if z3.is_false(z3.simplify(g)):
                    continue
                if ex.check(r.pc, [z3.Not(g)]) == z3.unsat:
                    found = (f, g)
                    break
            if found:
                break
        site = getattr(r, 'site', (r.line, 0))
        if found:
            site_of.setdefault(found[0].name, set()).add(site)
            r.family = found[0].name
            ob('kernel-definition', r.pc, found[1],
               'the %s call at line %s is the documented block operation '
               '"%s": %s' % (r.name, r.line, found[0].name, found[0].doc),
               r.line)
        else:
            r.family = None
            alts = []
            for f in fams:
                if f.kind == 'call' and f.routine == r.name:
                    ws = [z3.Int('w%d?' % i_) for i_ in range(f.nwit)]
                    g = match(C, f, r.args['ints'], r.args['scalars'],
                              r.args['ptrs'], ws)
                    alts.append(z3.Exists(ws, g) if ws else g)
            ob('kernel-definition', r.pc, z3.Or(alts) if alts else False,
               'the %s call at line %s is one of the documented block '
               'operations of misc.%s (%s)' % (
                   r.name, r.line, ex.fname,
                   '; '.join(f.name for f in fams)), r.line)
    # ---- element-wise stores into argument buffers
    argbufs = {}
    for nm, o_ in C.parsed.items():
        if hasattr(o_, 'buffer_region'):
            try:
                argbufs[id(o_.buffer_region())] = nm
            except Exception:
                pass
    seen_st = set()

    def check_store(srec, frecs, E):
        if len(srec) != 5 or id(srec[0]) not in argbufs:
            return
        key = (srec[4], z3.simplify(srec[1]).sexpr())
        if key in seen_st:
            return
        seen_st.add(key)
        fr = [f_ for f_ in frecs if f_[0] is srec[0] and z3.eq(
            z3.simplify(f_[1]), z3.simplify(srec[1]))]
        cands = counters_for(E, logs)
        found = None
        for f in fams:
            if f.kind != 'store' or not fr:
                continue
            if (E['ord'] if E else None) != f.nest:
                continue
            r_, off_, sz_, val_, pc_, ln_, loads_ = fr[-1]
            for w in itertools.product(*([cands] * f.nwit)):
                for t in w:
                    unfold(ex, t)
                want = f.args(C, w)
                mat, at = want['at']
                if r_ is not C.buf(mat):
                    continue
                olds = [l_[3] for l_ in loads_ if l_[0] is r_ and z3.eq(
                    z3.simplify(l_[1]), z3.simplify(off_))]
                if not olds:
                    continue
                g = z3.And(f.dom(C, w), off_ == 8 * at,
                           z3.Or([val_ == want['factor'](o_) for o_ in olds]))
                if ex.check(pc_, [z3.Not(g)]) == z3.unsat:
                    found = (f, g, pc_)
                    break
            if found:
                break
        if found:
            site_of.setdefault(found[0].name, set()).add((srec[4], 0))
            ob('kernel-definition', found[2], found[1],
               'the store at line %s is the documented element operation '
               '"%s": %s' % (srec[4], found[0].name, found[0].doc), srec[4])
        else:
            ob('kernel-definition', srec[3], False,
               'the store at line %s into argument %s is one of the '
               'documented operations of misc.%s' % (
                   srec[4], argbufs[id(srec[0])], ex.fname), srec[4])
    for E in logs:
        for b in E['body']:
            for srec in b['stores']:
                if innermost(logs, srec, 'stores') is E:
                    check_store(srec, b['fstores'], E)
    for st, val in normal:
        inlog = set(id(s_) for E in logs for b in E['body']
                    for s_ in b['stores'])
        frecs = [v_ for k_, v_ in st.ghost.items() if isinstance(k_, tuple)
                 and k_ and k_[0] == 'fstorerec']
        for srec in st.stores:
            if id(srec) not in inlog:
                check_store(srec, frecs, None)
    # ---- every family is performed exactly once per index
    for f in fams:
        sites = site_of.get(f.name, set())
        ob('iteration-space', [], len(sites) >= 1,
           'the documented block operation "%s" is performed (%s)' % (
               f.name, f.doc))
        ob('iteration-space', [], len(sites) <= 1,
           'the documented block operation "%s" is performed by one call '
           'site (sites at lines %s)' % (f.name, sorted(
               s_[0] for s_ in sites)))
        if f.kind != 'call':
            continue
        if f.nest is None:
            for st, val in normal:
                n_ = sum(1 for r in st.calls if getattr(
                    r, 'family', None) == f.name and innermost(
                        logs, r, 'calls') is None)
                ob('iteration-space', [], n_ == 1,
                   '"%s" is performed exactly once on every path' % f.name)
        else:
            for E in logs:
                if E['ord'] != f.nest:
                    continue
                for b in E['body']:
                    if b['kind'] not in ('fall', 'continue'):
                        continue
                    n_ = sum(1 for r in b['calls'] if getattr(
                        r, 'family', None) == f.name and innermost(
                            logs, r, 'calls') is E)
                    if n_ == 0:
                        ob('iteration-space', b['pc'], False,
                           '"%s" is performed on every path through the body'
                           ' of loop %s (a path skips it; whether it is a '
                           'no-op there is not decided)' % (f.name, f.nest),
                           E['line'], force='undecided')
                    else:
                        ob('iteration-space', [], n_ == 1,
                           '"%s" is performed exactly once per iteration of '
                           'loop %s' % (f.name, f.nest), E['line'])
    extra = spec.get('post')
    if extra:
        extra(ex, C, normal, logs, ob)
    ob('covered', [], True, 'paths of misc.%s were executed' % ex.fname)
    return {'calls': len(calls), 'loops': len(logs)}


def loop_invariants_for(fname):
    def f(ex, o, env, st):
        spec = KERNELS[fname]
        g = spec['loops'].get(o)
        if g is None:
            return []
        parsed = st.ghost.get('parsed')
        if not parsed:
            return []
        C = Ctx(ex, parsed)
        return g(C, env, lambda t: (unfold(ex, t), t)[1])
    return f


def lq(C, base):
    """offset of the first 's' block: base + l + sum(q)"""
    return base + L + Qf(NQ)


def iv(env, name):
    v = env[name]
    if not isinstance(v, IntV):
        raise KeyError('%s is not an integer variable' % name)
    return v.t


def q_loop(var, base):
    """the loop that adds up dims['q'] into `var`"""
    return lambda C, e, U: [
        ('0 <= i <= len(q)', z3.And(U(iv(e, 'i')) >= 0, iv(e, 'i') <= NQ)),
        ('%s = base + l + Q(i)' % var,
         iv(e, var) == base(C) + L + Qf(iv(e, 'i')))]


def spec_trisc(zero):
    # block k starts at B_k = offset + l + sum(q) + SQ(k), n = s_k; column
    # index j = 0 .. n-2 (the code's loop variable is i = j + 1)
    def B(C, k):
        return lq(C, C.arg('offset')) + SQf(k)
    dom = lambda C, w: z3.And(w[0] >= 0, w[0] < NS, w[1] >= 0,
                              w[1] < sf(w[0]) - 1)
    fams = []
    if zero:
        fams.append(Fam(
            'zero-row-right-of-diagonal', 'dscal_', 2, 2, dom,
            lambda C, w: {'n': sf(w[0]) - 1 - w[1], 'alpha': z3.RealVal(0),
                          'incx': sf(w[0]),
                          'x': ('x', B(C, w[0]) + w[1] + (w[1] + 1) *
                                sf(w[0]))},
            'x[B_k + j + (j+1+t) n] := 0, t < n-1-j (row j right of the '
            'diagonal of block k)'))
    fams.append(Fam(
        'scale-column-below-diagonal', 'dscal_', 2, 2, dom,
        lambda C, w: {'n': sf(w[0]) - 1 - w[1],
                      'alpha': z3.RealVal(2) if zero else z3.RealVal('1/2'),
                      'incx': z3.IntVal(1),
                      'x': ('x', B(C, w[0]) + (w[1] + 1) + w[1] * sf(w[0]))},
        'x[B_k + (j+1+t) + j n] *= %s, t < n-1-j (column j below the '
        'diagonal of block k)' % ('2' if zero else '0.5')))
    return {'families': fams,
            'loops': {
                0: q_loop('ox', lambda C: C.arg('offset')),
                1: lambda C, e, U: [
                    ('0 <= k <= len(s)', z3.And(U(iv(e, 'k')) >= 0,
                                                iv(e, 'k') <= NS)),
                    ('ox = offset + l + sum(q) + SQ(k)',
                     iv(e, 'ox') == B(C, iv(e, 'k')))]},
            'space': {1: (lambda C, e: 0, lambda C, e: NS),
                      2: (lambda C, e: 1, lambda C, e: sf(iv(e, 'k')))}}


Tf = z3.Function('T', I, I, I)


def T(C, n, j):
    """T(n, j) = sum_{t<j} (n - t): position of column j inside the packed
    lower triangle of order n (closed form, unfolded at use)"""
    key = ('T', n.get_id() if z3.is_expr(n) else n,
           j.get_id() if z3.is_expr(j) else j)
    done = C.ex.__dict__.setdefault('_unfolded', {})
    if key not in done:
        done[key] = (n, j)
        C.ex.axioms.append(2 * Tf(n, j) == 2 * j * n - j * (j - 1))
    return Tf(n, j)


def s_loop(pairs):
    """outer loop over the 's' blocks with counter `i`: running offsets"""
    def f(C, e, U):
        c = U(iv(e, 'i'))
        out = [('0 <= i <= len(s)', z3.And(c >= 0, c <= NS))]
        for var, g, txt in pairs:
            out.append((txt, iv(e, var) == g(C, c)))
        return out
    return f


def col_loop(var, base, txt):
    """inner loop over the columns k of a block of order n = s_i: the packed
    position advances by n - k"""
    def f(C, e, U):
        k, n = iv(e, 'k'), iv(e, 'n')
        return [('0 <= k <= n', z3.And(k >= 0, k <= n)),
                ('n = s_i', n == sf(iv(e, 'i'))),
                (txt, 2 * (iv(e, var) - base(C, iv(e, 'i'))) ==
                 2 * k * n - k * (k - 1))]
    return f


def spec_pack():
    nlq = lambda C: C.arg('mnl') + L + Qf(NQ)
    U = lambda C, k: C.arg('offsetx') + nlq(C) + SQf(k)
    P = lambda C, k: C.arg('offsety') + nlq(C) + TPf(k)
    dom = lambda C, w: z3.And(w[0] >= 0, w[0] < NS, w[1] >= 0,
                              w[1] < sf(w[0]))
    fams = [
        Fam('copy-nonsemidefinite-part', 'dcopy_', None, 0,
            lambda C, w: z3.BoolVal(True),
            lambda C, w: {'n': nlq(C), 'x': ('x', C.arg('offsetx')),
                          'incx': z3.IntVal(1),
                          'y': ('y', C.arg('offsety')), 'incy': z3.IntVal(1)},
            'y[offsety + t] := x[offsetx + t], t < mnl + l + sum(q)'),
        Fam('copy-column-from-diagonal', 'dcopy_', 2, 2, dom,
            lambda C, w: {'n': sf(w[0]) - w[1],
                          'x': ('x', U(C, w[0]) + w[1] * (sf(w[0]) + 1)),
                          'incx': z3.IntVal(1),
                          'y': ('y', P(C, w[0]) + T(C, sf(w[0]), w[1])),
                          'incy': z3.IntVal(1)},
            'y[P_k + T(n,j) + t] := x[U_k + j (n+1) + t], t < n-j (column j '
            'of block k from the diagonal down, to its packed position)'),
        Fam('unscale-diagonal', None, 2, 2, dom,
            lambda C, w: {'at': ('y', P(C, w[0]) + T(C, sf(w[0]), w[1])),
                          'factor': lambda old: FDIV(old, SQRT2)},
            'y[P_k + T(n,j)] /= sqrt(2) (the diagonal entry of column j)',
            kind='store'),
        Fam('scale-packed-part', 'dscal_', None, 0,
            lambda C, w: z3.BoolVal(True),
            lambda C, w: {'n': TPf(NS), 'alpha': SQRT2,
                          'x': ('y', C.arg('offsety') + nlq(C)),
                          'incx': z3.IntVal(1)},
            'y[offsety + mnl + l + sum(q) + t] *= sqrt(2), t < sum n(n+1)/2')]
    return {'families': fams,
            'loops': {
                0: q_loop('nlq', lambda C: C.arg('mnl')),
                1: s_loop([('iu', U, 'iu = offsetx + nlq + SQ(i)'),
                           ('ip', P, 'ip = offsety + nlq + TP(i)'),
                           ('np', lambda C, c: TPf(c), 'np = TP(i)'),
                           ('nlq', lambda C, c: nlq(C),
                            'nlq = mnl + l + sum(q)')]),
                2: col_loop('ip', P, 'ip = P_i + T(n,k)')},
            'space': {1: (lambda C, e: 0, lambda C, e: NS),
                      2: (lambda C, e: 0, lambda C, e: sf(iv(e, 'i')))}}


def spec_pack2():
    """pack2(x, dims, mnl): in-place version of pack for a matrix x with xc
    columns (leading dimension xr): for every 's' block i and column k of
    the block, the part of row-block k from the diagonal down (len = n - k
    rows, all xc columns) is copied to the work space, its rows 1..len-1 are
    scaled by sqrt(2), and the result is copied to the packed position"""
    nlq = lambda C: C.arg('mnl') + L + Qf(NQ)
    U = lambda C, k: nlq(C) + SQf(k)
    P = lambda C, k: nlq(C) + TPf(k)
    xr = lambda C: C.parsed['x'].nrows
    xc = lambda C: C.parsed['x'].ncols
    dom = lambda C, w: z3.And(w[0] >= 0, w[0] < NS, w[1] >= 0,
                              w[1] < sf(w[0]))
    fams = [
        Fam('rows-to-work', 'dlacpy_', 3, 2, dom,
            lambda C, w: {'uplo': z3.IntVal(ord(' ')), 'm': sf(w[0]) - w[1],
                          'n': xc(C),
                          'A': ('x', U(C, w[0]) + w[1] * (sf(w[0]) + 1)),
                          'lda': xr(C), 'B': ('@work', z3.IntVal(0)),
                          'ldb': MXf(NS)},
            'wrk[t, c] := x[U_i + k (n+1) + t, c], t < n-k, all columns c '
            '(column k of block i from the diagonal down)'),
        Fam('scale-work-rows', 'dscal_', 4, 3,
            lambda C, w: z3.And(dom(C, w), w[2] >= 1,
                                w[2] < sf(w[0]) - w[1]),
            lambda C, w: {'n': xc(C), 'alpha': SQRT2,
                          'x': ('@work', w[2]), 'incx': MXf(NS)},
            'wrk[j, c] *= sqrt(2), 1 <= j < n-k (the entries below the '
            'diagonal)'),
        Fam('work-to-packed', 'dlacpy_', 3, 2, dom,
            lambda C, w: {'uplo': z3.IntVal(ord(' ')), 'm': sf(w[0]) - w[1],
                          'n': xc(C), 'A': ('@work', z3.IntVal(0)),
                          'lda': MXf(NS),
                          'B': ('x', P(C, w[0]) + T(C, sf(w[0]), w[1])),
                          'ldb': xr(C)},
            'x[P_i + T(n,k) + t, c] := wrk[t, c], t < n-k (packed position '
            'of column k of block i)')]
    return {'families': fams,
            'loops': {
                0: q_loop('nlq', lambda C: C.arg('mnl')),
                1: lambda C, e, U_: [
                    ('0 <= i <= len(s)', z3.And(U_(iv(e, 'i')) >= 0,
                                                iv(e, 'i') <= NS)),
                    ('maxn = max(0, s_0, ..., s_{i-1})',
                     iv(e, 'maxn') == MXf(iv(e, 'i')))],
                2: s_loop([('iu', U, 'iu = nlq + SQ(i)'),
                           ('ip', P, 'ip = nlq + TP(i)'),
                           ('nlq', lambda C, c: nlq(C),
                            'nlq = mnl + l + sum(q)'),
                           ('maxn', lambda C, c: MXf(NS),
                            'maxn = max(0, s_0, ...)')]),
                3: col_loop('ip', P, 'ip = P_i + T(n,k)'),
                4: lambda C, e, U_: [
                    ('1 <= j', iv(e, 'j') >= 1),
                    ('len = n - k', iv(e, 'len') == iv(e, 'n') - iv(e, 'k'))]},
            'space': {2: (lambda C, e: 0, lambda C, e: NS),
                      3: (lambda C, e: 0, lambda C, e: sf(iv(e, 'i'))),
                      4: (lambda C, e: 1,
                          lambda C, e: sf(iv(e, 'i')) - iv(e, 'k'))}}


def spec_unpack():
    m = lambda C: C.arg('mnl') + L + Qf(NQ)
    P = lambda C, k: C.arg('offsetx') + m(C) + TPf(k)
    U = lambda C, k: C.arg('offsety') + m(C) + SQf(k)
    dom = lambda C, w: z3.And(w[0] >= 0, w[0] < NS, w[1] >= 0,
                              w[1] < sf(w[0]))
    fams = [
        Fam('copy-nonsemidefinite-part', 'dcopy_', None, 0,
            lambda C, w: z3.BoolVal(True),
            lambda C, w: {'n': m(C), 'x': ('x', C.arg('offsetx')),
                          'incx': z3.IntVal(1),
                          'y': ('y', C.arg('offsety')), 'incy': z3.IntVal(1)},
            'y[offsety + t] := x[offsetx + t], t < mnl + l + sum(q)'),
        Fam('copy-column-to-diagonal', 'dcopy_', 2, 2, dom,
            lambda C, w: {'n': sf(w[0]) - w[1],
                          'x': ('x', P(C, w[0]) + T(C, sf(w[0]), w[1])),
                          'incx': z3.IntVal(1),
                          'y': ('y', U(C, w[0]) + w[1] * (sf(w[0]) + 1)),
                          'incy': z3.IntVal(1)},
            'y[U_k + j (n+1) + t] := x[P_k + T(n,j) + t], t < n-j (packed '
            'column j of block k to the diagonal of column j and below)'),
        Fam('unscale-below-diagonal', 'dscal_', 2, 2, dom,
            lambda C, w: {'n': sf(w[0]) - w[1] - 1, 'alpha': FDIV(z3.RealVal(1), SQRT2),
                          'x': ('y', U(C, w[0]) + w[1] * (sf(w[0]) + 1) + 1),
                          'incx': z3.IntVal(1)},
            'y[U_k + j (n+1) + 1 + t] *= 1/sqrt(2), t < n-j-1 (column j '
            'strictly below the diagonal)')]
    return {'families': fams,
            'loops': {
                0: q_loop('m', lambda C: C.arg('mnl')),
                1: s_loop([('ip', P, 'ip = offsetx + m + TP(i)'),
                           ('iu', U, 'iu = offsety + m + SQ(i)')]),
                2: col_loop('ip', P, 'ip = P_i + T(n,k)')},
            'space': {1: (lambda C, e: 0, lambda C, e: NS),
                      2: (lambda C, e: 0, lambda C, e: sf(iv(e, 'i')))}}


def spec_symm():
    dom = lambda C, w: z3.And(w[0] >= 0, w[0] < C.arg('n'))
    fams = [Fam(
        'copy-column-below-diagonal-to-row', 'dcopy_', 0, 1, dom,
        lambda C, w: {'n': C.arg('n') - w[0] - 1,
                      'x': ('x', C.arg('offset') + (w[0] + 1) + w[0] *
                            C.arg('n')), 'incx': z3.IntVal(1),
                      'y': ('x', C.arg('offset') + w[0] + (w[0] + 1) *
                            C.arg('n')), 'incy': C.arg('n')},
        'x[offset + j + (j+1+t) n] := x[offset + (j+1+t) + j n], t < n-j-1')]
    return {'families': fams, 'loops': {},
            'space': {0: (lambda C, e: 0, lambda C, e: C.arg('n'))}}


def spec_sdot():
    B = lambda C, k: C.arg('mnl') + L + Qf(NQ) + SQf(k)
    fams = [
        Fam('dot-nonsemidefinite-part', 'ddot_', None, 0,
            lambda C, w: z3.BoolVal(True),
            lambda C, w: {'n': C.arg('mnl') + L + Qf(NQ),
                          'x': ('x', z3.IntVal(0)), 'incx': z3.IntVal(1),
                          'y': ('y', z3.IntVal(0)), 'incy': z3.IntVal(1)},
            'sum_t x[t] y[t], t < mnl + l + sum(q)'),
        Fam('dot-diagonal', 'ddot_', 1, 1,
            lambda C, w: z3.And(w[0] >= 0, w[0] < NS),
            lambda C, w: {'n': sf(w[0]), 'x': ('x', B(C, w[0])),
                          'incx': sf(w[0]) + 1, 'y': ('y', B(C, w[0])),
                          'incy': sf(w[0]) + 1},
            'sum_t x[B_k + t (n+1)] y[B_k + t (n+1)], t < n (diagonals)'),
        Fam('dot-subdiagonal', 'ddot_', 2, 2,
            lambda C, w: z3.And(w[0] >= 0, w[0] < NS, w[1] >= 1,
                                w[1] < sf(w[0])),
            lambda C, w: {'n': sf(w[0]) - w[1],
                          'x': ('x', B(C, w[0]) + w[1]),
                          'incx': sf(w[0]) + 1,
                          'y': ('y', B(C, w[0]) + w[1]),
                          'incy': sf(w[0]) + 1},
            'sum_t x[B_k + j + t (n+1)] y[same], t < n-j (j-th subdiagonal '
            'of block k; counted twice in the result)')]

    def post(ex, C, normal, logs, ob):
        """the result is the running sum of the partial inner products"""
        def flt(env, name='a'):
            v = env.get(name)
            if not isinstance(v, FltV) or not z3.is_expr(v.t):
                raise KeyError(name)
            return v.t

        def ret_of(calls, fam):
            r = [c for c in calls if getattr(c, 'family', None) == fam and
                 getattr(c, 'ret', None) is not None]
            return r[0].ret.t if len(r) == 1 else None
        try:
            for E in logs:
                if E['ord'] == 2:
                    for b in E['body']:
                        r = ret_of(b['calls'], 'dot-subdiagonal')
                        ob('accumulate', b['pc'], r is not None and flt(
                            b['env_end']) == FADD(flt(E['head_env']), FMUL(z3.RealVal(2), r)),
                           'each iteration of loop 2 adds twice the '
                           'subdiagonal inner product to the result',
                           E['line'])
                    E1 = [F for F in logs if F['ord'] == 1]
                    for F in E1:
                        for b in F['body']:
                            r = ret_of([c for c in b['calls'] if innermost(
                                logs, c, 'calls') is F], 'dot-diagonal')
                            ob('accumulate', E['entry_pc'], r is not None and
                               flt(E['entry_env']) == FADD(flt(F['head_env']), r),
                               'each iteration of loop 1 first adds the '
                               'diagonal inner product', F['line'])
                            ob('accumulate', b['pc'], E['exit_env'] is not
                               None and z3.eq(flt(b['env_end']),
                                              flt(E['exit_env'])),
                               'and then only the subdiagonal sums of loop '
                               '2', F['line'])
                if E['ord'] == 1:
                    for st, val in normal:
                        r0 = ret_of([c for c in st.calls if innermost(
                            logs, c, 'calls') is None],
                            'dot-nonsemidefinite-part')
                        ob('accumulate', E['entry_pc'], r0 is not None and
                           flt(E['entry_env']) == r0,
                           'the sum starts with the inner product of the '
                           'non-semidefinite part', E['line'])
                        bv = getattr(getattr(val, 'obj', None), 'extra',
                                     {}).get('built')
                        pv = bv[1][0].t if bv and bv[0] == 'd' and len(
                            bv[1]) == 1 and isinstance(bv[1][0], FltV) \
                            else None
                        ob('accumulate', st.path(), pv is not None and z3.eq(
                            pv, flt(E['exit_env'])),
                           'the value returned is the accumulated sum',
                           E['line'])
        except KeyError as e:
            ob('accumulate', [], False, 'the accumulator of sdot can be '
               'identified (%s)' % e, force='undecided')
    return {'families': fams,
            'loops': {
                0: q_loop('m', lambda C: C.arg('mnl')),
                1: lambda C, e, U: [
                    ('0 <= k <= len(s)', z3.And(U(iv(e, 'k')) >= 0,
                                                iv(e, 'k') <= NS)),
                    ('m = mnl + l + sum(q) + SQ(k)',
                     iv(e, 'm') == B(C, iv(e, 'k')))]},
            'space': {1: (lambda C, e: 0, lambda C, e: NS),
                      2: (lambda C, e: 1, lambda C, e: sf(iv(e, 'k')))},
            'post': post}


# ------------------------------------------------------------------ lemmas
class LemmaCtx:
    """symbolic arguments for statements about the family definitions alone
    (no code involved)"""
    def __init__(self, ren=None):
        class _E:
            pass
        self.ex = _E()
        self.ex.axioms = []
        self.ren = ren or {}

    def arg(self, name):
        return z3.Int(self.ren.get(name, name))

    def buf(self, name):
        return name


PARTS = {
    'strict-upper': lambda r, c, n: z3.And(0 <= r, r < c, c < n),
    'strict-lower': lambda r, c, n: z3.And(0 <= c, c < r, r < n),
    'lower': lambda r, c, n: z3.And(0 <= c, c <= r, r < n),
    'diagonal': lambda r, c, n: z3.And(0 <= r, r == c, r < n)}

# geometry of the families: (kernel, family, array actual, length actual,
# stride actual, block base, order n, part of the block, (j,t) -> (row,col),
# (row,col) -> (j,t))
_B_trisc = lambda C, k: lq(C, C.arg('offset')) + SQf(k)
_nlq = lambda C: C.arg('mnl') + L + Qf(NQ)
GEOMETRY = [
    ('trisc', 'zero-row-right-of-diagonal', 'x', 'n', 'incx', _B_trisc,
     'strict-upper', lambda j, t: (j, j + 1 + t), lambda r, c: (r, c - r - 1)),
    ('trisc', 'scale-column-below-diagonal', 'x', 'n', 'incx', _B_trisc,
     'strict-lower', lambda j, t: (j + 1 + t, j), lambda r, c: (c, r - c - 1)),
    ('triusc', 'scale-column-below-diagonal', 'x', 'n', 'incx', _B_trisc,
     'strict-lower', lambda j, t: (j + 1 + t, j), lambda r, c: (c, r - c - 1)),
    ('pack', 'copy-column-from-diagonal', 'x', 'n', 'incx',
     lambda C, k: C.arg('offsetx') + _nlq(C) + SQf(k),
     'lower', lambda j, t: (j + t, j), lambda r, c: (c, r - c)),
    ('unpack', 'copy-column-to-diagonal', 'y', 'n', 'incy',
     lambda C, k: C.arg('offsety') + _nlq(C) + SQf(k),
     'lower', lambda j, t: (j + t, j), lambda r, c: (c, r - c)),
    ('unpack', 'unscale-below-diagonal', 'x', 'n', 'incx',
     lambda C, k: C.arg('offsety') + _nlq(C) + SQf(k),
     'strict-lower', lambda j, t: (j + 1 + t, j), lambda r, c: (c, r - c - 1)),
    ('sdot', 'dot-diagonal', 'x', 'n', 'incx',
     lambda C, k: _nlq(C) + SQf(k),
     'diagonal', lambda j, t: (t, t), lambda r, c: (z3.IntVal(0), r)),
    ('sdot', 'dot-subdiagonal', 'x', 'n', 'incx',
     lambda C, k: _nlq(C) + SQf(k),
     'strict-lower', lambda j, t: (j + t, t), lambda r, c: (r - c, c)),
]


def lemmas():
    """[(name, text, hypotheses, goal)]: valid formulas about the family
    definitions, to be discharged by the solver"""
    out = []
    n, r, c, r2, c2, j, t, j2, t2, k = z3.Ints('n r c r2 c2 j t j2 t2 k')
    out.append(('column-major-injective',
                'two entries (row, col) of an n by n block in column-major '
                'storage have the same address only if they are the same '
                'entry', [n > 0, 0 <= r, r < n, 0 <= r2, r2 < n,
                          r + c * n == r2 + c2 * n],
                z3.And(r == r2, c == c2)))
    out.append(('entry-inside-block',
                'every entry of block k lies in [B_k, B_k + n*n)',
                [n > 0, 0 <= r, r < n, 0 <= c, c < n],
                z3.And(r + c * n >= 0, r + c * n < n * n)))
    T2 = lambda n_, j_: 2 * j_ * n_ - j_ * (j_ - 1)
    dom_p = [n >= 0, 0 <= j, j < n, 0 <= t, t < n - j]
    out.append(('packed-position-inside-block',
                'the packed positions T(n,j) + t, t < n-j, lie in '
                '[0, n(n+1)/2)', dom_p,
                z3.And(T2(n, j) + 2 * t >= 0,
                       T2(n, j) + 2 * t < n * (n + 1))))
    out.append(('packed-position-injective',
                'different (column, row) pairs of the lower triangle have '
                'different packed positions',
                dom_p + [0 <= j2, j2 < n, 0 <= t2, t2 < n - j2,
                         T2(n, j) + 2 * t == T2(n, j2) + 2 * t2],
                z3.And(j == j2, t == t2)))
    for (kn, fn, arr, ln, inc, Bf, part, rc, inv) in GEOMETRY:
        fam = [f for f in KERNELS[kn]['families'] if f.name == fn][0]
        C = LemmaCtx()
        w = (k, j) if fam.nwit == 2 else (k,)
        a = fam.args(C, w)
        nn = sf(k)
        addr = a[arr][1] + t * a[inc]
        row, col = rc(j, t)
        hyp = [fam.dom(C, w), 0 <= t, t < a[ln]] + list(C.ex.axioms)
        out.append(('%s.%s:addresses' % (kn, fn),
                    'the entries addressed by "%s" of misc.%s are entries '
                    '(row, col) of the %s part of block k' % (fn, kn, part),
                    hyp, z3.And(addr == Bf(C, k) + row + col * nn,
                                PARTS[part](row, col, nn))))
        jj, tt = inv(r, c)
        w2 = (k, jj) if fam.nwit == 2 else (k,)
        C2 = LemmaCtx()
        a2 = fam.args(C2, w2)
        rr, cc = rc(jj, tt)
        out.append(('%s.%s:covers' % (kn, fn),
                    'every entry of the %s part of every block is addressed '
                    'by "%s" of misc.%s' % (part, fn, kn),
                    [k >= 0, k < NS, nn >= 0, PARTS[part](r, c, nn)] +
                    list(C2.ex.axioms),
                    z3.And(fam.dom(C2, w2), 0 <= tt, tt < a2[ln],
                           rr == r, cc == c)))
    # pack followed by unpack: same address pairs, composite factor one
    fp = [f for f in KERNELS['pack']['families']
          if f.name == 'copy-column-from-diagonal'][0]
    fu = [f for f in KERNELS['unpack']['families']
          if f.name == 'copy-column-to-diagonal'][0]
    Cp = LemmaCtx({'offsetx': 'a', 'offsety': 'b'})
    Cu = LemmaCtx({'offsetx': 'b', 'offsety': 'a'})
    ap, au = fp.args(Cp, (k, j)), fu.args(Cu, (k, j))
    out.append(('unpack-undoes-pack:addresses',
                'unpack(y -> x\') reads each packed column from where '
                'pack(x -> y) wrote it and writes it back to where pack read '
                'it, with the same length',
                list(Cp.ex.axioms) + list(Cu.ex.axioms),
                z3.And(ap['x'][1] == au['y'][1], ap['y'][1] == au['x'][1],
                       ap['n'] == au['n'], ap['incx'] == au['incy'],
                       ap['incy'] == au['incx'])))
    a_, v_ = z3.Reals('sqrt2 v')
    out.append(('unpack-undoes-pack:factors',
                'over the reals the composite factor is one: diagonal '
                '(v / sqrt2) * sqrt2, below the diagonal (v * sqrt2) * '
                '(1 / sqrt2)', [a_ > 0, a_ * a_ == 2],
                z3.And((v_ / a_) * a_ == v_, (v_ * a_) * (1 / a_) == v_)))
    return out


KERNELS = {'trisc': spec_trisc(True), 'triusc': spec_trisc(False),
           'pack': spec_pack(), 'unpack': spec_unpack(),
           'pack2': spec_pack2(),
           'symm': spec_symm(), 'sdot': spec_sdot()}

FUNCS = {}
for _f in KERNELS:
    FUNCS[_f] = {'init': driver.pycfunction_init, 'post': post_kernel,
                 'config': {'loop_invariants': loop_invariants_for(_f)},
                 'externs': EXTERNS}
# pack2: only the obligations of C08 are discharged in this run (its
# arithmetic-overflow and footprint obligations, with products of three
# symbolic sizes, are not claimed anywhere and cost minutes of solver time)
FUNCS['pack2']['config']['only_kinds'] = (
    'kernel-definition', 'loop-invariant', 'iteration-space', 'accumulate',
    'covered')
