"""Assumed contracts of the CPython C-API and libc functions reached from the
functions under contract (the trusted base on the C side, DESIGN 2.4).
Every entry used in a run is listed in the evidence under trusted_base.

Handler signature: h(ex, st, callnode, argnodes) -> value
"""
import z3
from engine.cvc.exec import (IntV, BoolV, FltV, PtrV, PyObj, StrV, ArrV,
                             StructV, Opaque, Region, NULL, FuncV, CT,
                             Unsupported, CallRec, toint, tobool, Impure,
                             sizeof_type)

EXTERNS = {}
DOC = {}


def extern(name, doc):
    def deco(f):
        def wrapped(ex, st, n, args, *rest):
            ex.trusted.add('extern %s: %s' % (name, doc))
            return f(ex, st, n, args, *rest)
        EXTERNS[name] = wrapped
        DOC[name] = doc
        return f
    return deco


def noimpure(st):
    if st.pure:
        raise Impure()


# ------------------------------------------------------------ arg parsing
def parse_format(fmt):
    """-> list of (code, optional?)"""
    out = []
    opt = False
    for ch in fmt:
        if ch == '|':
            opt = True
        elif ch == ':' or ch == ';':
            break
        elif ch == '$':
            continue
        else:
            out.append((ch, opt))
    return out


@extern('PyArg_ParseTupleAndKeywords',
        "returns 0 with an exception set, or 1 after storing: 'O' any "
        "non-NULL object; 'i' any C int; 'n' any Py_ssize_t; 'c'/'C' any "
        "char / code point; 'd' any double; optional outputs keep their "
        "initial value when the argument is omitted")
def parse_kw(ex, st, n, args):
    noimpure(st)
    fmt = ex.ev(args[2], st)
    kwl = ex.ev(args[3], st)
    outs = args[4:]
    return do_parse(ex, st, n, fmt, kwl, outs)


@extern('PyArg_ParseTuple', "as PyArg_ParseTupleAndKeywords, positional")
def parse_t(ex, st, n, args):
    noimpure(st)
    fmt = ex.ev(args[1], st)
    return do_parse(ex, st, n, fmt, None, args[2:])


def do_parse(ex, st, n, fmt, kwl, outs):
    if not isinstance(fmt, StrV):
        raise Unsupported('non-literal format string')
    codes = parse_format(fmt.s)
    names = None
    if isinstance(kwl, ArrV):
        names = [k.s for k in kwl.items if isinstance(k, StrV)]
    if len(codes) != len(outs):
        ex.oblige(st, 'extern-requires', z3.BoolVal(False), n,
                  text='PyArg_Parse* requires one output address per format '
                  'unit ("%s": %d units, %d addresses)' % (
                      fmt.s, len(codes), len(outs)))
        if len(codes) > len(outs):
            raise Unsupported('format/argument count mismatch in %s' % fmt.s)
        outs = outs[:len(codes)]     # surplus addresses are never written
    if names is not None and len(names) != len(codes):
        # fewer names than units: keywords bind to the wrong variable and
        # CPython raises SystemError when every argument is given
        ex.oblige(st, 'extern-requires', z3.BoolVal(False), n,
                  text='PyArg_ParseTupleAndKeywords requires one keyword '
                  'name per format unit ("%s": %d units, %d names)' % (
                      fmt.s, len(codes), len(names)))
    ok = ex.fresh_bool('parse_ok')
    parsed = st.ghost.setdefault('parsed', {})
    parsed = dict(parsed)
    order = []
    for i, ((code, opt), o) in enumerate(zip(codes, outs)):
        p = ex.ev(o, st)
        nm = names[i] if names and i < len(names) else 'arg%d' % i
        if not isinstance(p, PtrV):
            # the value of the variable is passed where its address is
            # expected: CPython stores through it when the argument is given
            ex.oblige(st, 'extern-requires', z3.BoolVal(False), n,
                      text='PyArg_Parse* requires an address for format unit '
                      '%d (%s)' % (i + 1, nm))
            order.append(nm)
            parsed[nm] = toint(p).t if isinstance(p, (IntV, BoolV)) else \
                ex.fresh_int(nm, 'int').t
            continue
        old = ex.load_through(p, st, n)
        if code == 'O':
            obj = ex.new_obj(nm)
            if opt:
                given = ex.fresh_bool('given(%s)' % nm)
                if old is NULL:
                    v = PtrV(None, 0, CT(p.ty).pointee or 'PyObject',
                             null=z3.Not(given), obj=obj)
                else:
                    raise Unsupported("optional 'O' with non-NULL default")
            else:
                v = PtrV(None, 0, CT(p.ty).pointee or 'PyObject', obj=obj)
            parsed[nm] = obj
        elif code in ('i', 'n', 'l'):
            ty = {'i': 'int', 'n': 'long', 'l': 'long'}[code]
            v = ex.fresh_int(nm, ty)
            parsed[nm] = v.t
        elif code in ('c', 'C'):
            if code == 'C':
                v = ex.fresh_int(nm, 'int')
                # ASSUMPTION (listed in the evidence): flag characters are
                # ASCII.  A non-ASCII code point is narrowed by the wrappers'
                # `(char) trans_` and aliases its low byte; that input class
                # is outside what the C17/C18 rows claim.
                ex.trusted.add("assumption: 'C'-format flag characters are "
                               "ASCII (code point < 128)")
                ex.axioms.append(z3.And(v.t >= 0, v.t <= 127))
            else:
                v = ex.fresh_int(nm, 'char')
            parsed[nm] = v.t
        elif code == 'd':
            v = FltV(ex.fresh_real(nm), 'double')
            parsed[nm] = v.t
        else:
            raise Unsupported('format code %s' % code)
        if opt and code != 'O':
            # omitted => the initial value stays.  The initial value is a
            # member of the type, so "any value of the type" covers it; we
            # remember the initialiser for the spec side (defaults).
            st.ghost.setdefault('defaults', {})
            d = dict(st.ghost['defaults'])
            d[nm] = old
            st.ghost['defaults'] = d
        ex.store_through(p, v, st, n)
        order.append(nm)
    st.ghost['parsed'] = parsed
    st.ghost['parse_order'] = order
    st.ghost['parse_codes'] = [(nm, c, o) for nm, (c, o) in zip(order, codes)]
    st.ghost['parse_ok'] = ok
    st.ghost['exc_if_parse_fails'] = True
    return BoolV(ok)


# ------------------------------------------------------------ type checks
@extern('cvxopt_API[3]', "Matrix_Check: pure type test")
def matrix_check(ex, st, n, args):
    p = ex.ev(args[0], st)
    if isinstance(p, PtrV) and p.obj is not None:
        b = p.obj.ismat
        if p.null is not None:
            # Matrix_Check(NULL) would crash: obligation
            ex.oblige(st, 'deref', z3.Not(p.null), n,
                      text='Matrix_Check(%s) on possibly-NULL' % p.obj.name)
        return BoolV(b)
    if p is NULL:
        ex.oblige(st, 'deref', z3.BoolVal(False), n, text='Matrix_Check(NULL)')
    raise Unsupported('Matrix_Check of %r' % (p,))


@extern('cvxopt_API[7]', "SpMatrix_Check: pure type test")
def spmatrix_check(ex, st, n, args):
    p = ex.ev(args[0], st)
    if isinstance(p, PtrV) and p.obj is not None:
        if p.null is not None:
            ex.oblige(st, 'deref', z3.Not(p.null), n,
                      text='SpMatrix_Check(%s) on possibly-NULL' % p.obj.name)
        return BoolV(p.obj.issp)
    raise Unsupported('SpMatrix_Check of %r' % (p,))


def pytype_pred(cname, pred):
    @extern(cname, "pure type test")
    def h(ex, st, n, args):
        p = ex.ev(args[0], st)
        if isinstance(p, PtrV) and p.obj is not None:
            o = p.obj
            if p.null is not None:
                ex.oblige(st, 'deref', z3.Not(p.null), n,
                          text='%s(%s) on possibly-NULL' % (cname, o.name))
            if pred not in o.extra:
                o.extra[pred] = z3.Bool('%s(%s)' % (pred, o.name))
                ex.axioms.append(z3.Implies(z3.Or(o.ismat, o.issp),
                                            z3.Not(o.extra[pred])))
            return BoolV(o.extra[pred])
        raise Unsupported('%s of %r' % (cname, p))
    return h


for _c, _p in [('PyLong_Check', 'islong'), ('PyFloat_Check', 'isfloat'),
               ('PyComplex_Check', 'iscomplex'), ('PyList_Check', 'islist'),
               ('PyDict_Check', 'isdict'), ('PyTuple_Check', 'istuple'),
               ('PySlice_Check', 'isslice'), ('PyUnicode_Check', 'isstr'),
               ('PyCallable_Check', 'iscallable'),
               ('PyBytes_Check', 'isbytes'), ('PySequence_Check', 'isseq')]:
    pytype_pred(_c, _p)


# PyObject_TypeCheck and friends are static inline functions in Python.h and
# PyLong_Check etc. expand to PyType_HasFeature(Py_TYPE(o), flag): we
# intercept at the lowest level common to all of them.
@extern('PyType_HasFeature', "pure test of a type flag of an object's type")
def type_has_feature(ex, st, n, args):
    t = ex.ev(args[0], st)
    f = toint(ex.ev(args[1], st))
    flag = z3.simplify(f.t)
    names = {1 << 24: 'islong', 1 << 25: 'islist', 1 << 26: 'istuple',
             1 << 27: 'isbytes', 1 << 28: 'isstr', 1 << 29: 'isdict'}
    if isinstance(t, PtrV) and t.obj is not None and z3.is_int_value(flag):
        pred = names.get(flag.as_long(), 'flag%x' % flag.as_long())
        o = t.obj
        if pred not in o.extra:
            o.extra[pred] = z3.Bool('%s(%s)' % (pred, o.name))
            ex.axioms.append(z3.Implies(z3.Or(o.ismat, o.issp),
                                        z3.Not(o.extra[pred])))
        return BoolV(o.extra[pred])
    raise Unsupported('PyType_HasFeature')


@extern('Py_TYPE', "type of an object (ghost: the object itself)")
def py_type(ex, st, n, args):
    p = ex.ev(args[0], st)
    if isinstance(p, PtrV) and p.null is not None:
        ex.oblige(st, 'deref', z3.Not(p.null), n, text='Py_TYPE of '
                  'possibly-NULL %s' % (p.obj.name if p.obj else '?'))
    return p


@extern('PyObject_TypeCheck', "pure type test against a static type object")
def obj_typecheck(ex, st, n, args):
    p = ex.ev(args[0], st)
    tn = args[1]
    while tn['kind'] in ('ImplicitCastExpr', 'ParenExpr', 'CStyleCastExpr'):
        tn = tn['inner'][0]
    tname = None
    if tn['kind'] == 'UnaryOperator' and tn['opcode'] == '&':
        tname = tn['inner'][0].get('ref')
    if isinstance(p, PtrV) and p.obj is not None and tname:
        o = p.obj
        if p.null is not None:
            ex.oblige(st, 'deref', z3.Not(p.null), n,
                      text='type check of possibly-NULL %s' % o.name)
        if tname == 'matrix_tp':
            return BoolV(o.ismat)
        if tname == 'spmatrix_tp':
            return BoolV(o.issp)
        pred = {'PyFloat_Type': 'isfloat', 'PyComplex_Type': 'iscomplex',
                'PySlice_Type': 'isslice'}.get(tname, 'is_' + tname)
        if pred not in o.extra:
            o.extra[pred] = z3.Bool('%s(%s)' % (pred, o.name))
            ex.axioms.append(z3.Implies(z3.Or(o.ismat, o.issp),
                                        z3.Not(o.extra[pred])))
        return BoolV(o.extra[pred])
    raise Unsupported('PyObject_TypeCheck %r %s' % (p, tname))


@extern('Py_IS_TYPE', "pure exact type test")
def py_is_type(ex, st, n, args):
    return obj_typecheck(ex, st, n, args)


# ------------------------------------------------------------ errors
def exc_name(ex, st, node):
    v = ex.ev(node, st)
    if isinstance(v, PtrV) and v.obj is not None and 'exc' in v.obj.extra:
        return v.obj.extra['exc']
    return 'unknown-exception'


@extern('PyErr_SetString', "sets the error indicator to the given type")
def err_setstring(ex, st, n, args):
    noimpure(st)
    st.exc = exc_name(ex, st, args[0])
    msg = ex.ev(args[1], st)
    st.ghost['exc_msg'] = msg.s if isinstance(msg, StrV) else None
    return Opaque('void')


@extern('PyErr_Format', "sets the error indicator to the given type; "
        "returns NULL")
def err_format(ex, st, n, args):
    noimpure(st)
    st.exc = exc_name(ex, st, args[0])
    return NULL


@extern('PyErr_SetObject', "sets the error indicator to the given type")
def err_setobject(ex, st, n, args):
    noimpure(st)
    st.exc = exc_name(ex, st, args[0])
    return Opaque('void')


@extern('PyErr_NoMemory', "sets MemoryError; returns NULL")
def err_nomem(ex, st, n, args):
    noimpure(st)
    st.exc = 'PyExc_MemoryError'
    return NULL


@extern('PyErr_Occurred', "non-NULL iff the error indicator is set")
def err_occurred(ex, st, n, args):
    if st.exc is not None:
        return PtrV(None, 0, 'PyObject', obj=ex.exc_obj(st.exc))
    b = st.ghost.get('maybe_exc')
    if b is not None:
        return PtrV(None, 0, 'PyObject', null=z3.Not(b),
                    obj=ex.exc_obj('PyExc_pending'))
    return NULL


@extern('PyErr_Clear', "clears the error indicator")
def err_clear(ex, st, n, args):
    noimpure(st)
    st.exc = None
    st.ghost.pop('maybe_exc', None)
    return Opaque('void')


# ------------------------------------------------------------ results
@extern('Py_BuildValue', "returns a new object (or NULL with MemoryError, "
        "not modelled)")
def build_value(ex, st, n, args):
    noimpure(st)
    fmt = ex.ev(args[0], st)
    vals = [ex.ev(a, st) for a in args[1:]]
    o = ex.new_obj('result', fresh=True)
    o.extra['built'] = (fmt.s if isinstance(fmt, StrV) else None, vals)
    return PtrV(None, 0, 'PyObject', obj=o)


@extern('PyEval_SaveThread', "releases the GIL")
def save_thread(ex, st, n, args):
    noimpure(st)
    st.ghost['gil_released'] = True
    return Opaque('threadstate')


@extern('PyEval_RestoreThread', "re-acquires the GIL")
def restore_thread(ex, st, n, args):
    noimpure(st)
    st.ghost['gil_released'] = False
    return Opaque('void')


@extern('PyFloat_AsDouble', "returns the value of a float/int object as "
        "double (or -1.0 with an exception set)")
def float_asdouble(ex, st, n, args):
    p = ex.ev(args[0], st)
    nm = p.obj.name if isinstance(p, PtrV) and p.obj else 'obj'
    if isinstance(p, PtrV) and p.obj is not None:
        return FltV(p.obj.extra.setdefault('re', z3.Real('re(%s)' % nm)),
                    'double')
    return FltV(ex.fresh_real('asdouble'), 'double')


@extern('PyComplex_RealAsDouble', "real part as double")
def cplx_re(ex, st, n, args):
    return float_asdouble(ex, st, n, args)


@extern('PyComplex_ImagAsDouble', "imaginary part as double")
def cplx_im(ex, st, n, args):
    p = ex.ev(args[0], st)
    if isinstance(p, PtrV) and p.obj is not None:
        nm = p.obj.name
        return FltV(p.obj.extra.setdefault('im', z3.Real('im(%s)' % nm)),
                    'double')
    return FltV(ex.fresh_real('imag'), 'double')


@extern('abs', "libc abs(): |x|; undefined for INT_MIN (obligation)")
def c_abs(ex, st, n, args):
    v = toint(ex.ev(args[0], st))
    ex.oblige(st, 'nooverflow', v.t > -2**31, n)
    return IntV(z3.If(v.t >= 0, v.t, -v.t), 'int')


@extern('labs', "libc labs()")
def c_labs(ex, st, n, args):
    v = toint(ex.ev(args[0], st))
    ex.oblige(st, 'nooverflow', v.t > -2**63, n)
    return IntV(z3.If(v.t >= 0, v.t, -v.t), 'long')


def _alloc(ex, st, n, size, what):
    noimpure(st)
    # deterministic naming per path (a statement that is re-executed after a
    # fork must regenerate the same symbols)
    key = ('malloc', n.get('line'), n.get('off', (0, 0))[0])
    cnt = st.ghost.get(key, 0)
    st.ghost[key] = cnt + 1
    r = Region('malloc', '%s@%s#%d' % (what, n.get('line'), cnt), size)
    isnull = z3.Bool('alloc_fails@%s.%s#%d' % (n.get('line'), key[2], cnt))
    if ex.cfg.get('small_malloc_succeeds'):
        sz_ = z3.simplify(size) if isinstance(size, z3.ExprRef) else None
        if sz_ is not None and z3.is_int_value(sz_) and sz_.as_long() <= 4096:
            # ASSUMPTION (listed): the allocation of a small fixed-size
            # block succeeds (the function does not test the result)
            ex.trusted.add('assumption: malloc of a fixed block of %d bytes '
                           'succeeds (line %s does not test the result)' % (
                               sz_.as_long(), n.get('line')))
            isnull = None
    t = CT(n['ty'])
    return PtrV(r, 0, t.pointee or 'void', null=isnull)


@extern('malloc', "returns NULL or a fresh block of exactly the requested "
        "number of bytes")
def c_malloc(ex, st, n, args):
    sz = toint(ex.ev(args[0], st))
    return _alloc(ex, st, n, sz.t, 'malloc')


@extern('calloc', "returns NULL or a fresh zeroed block of nmemb*size bytes")
def c_calloc(ex, st, n, args):
    a = toint(ex.ev(args[0], st))
    b = toint(ex.ev(args[1], st))
    ex.oblige(st, 'nooverflow', z3.And(a.t * b.t >= 0, a.t * b.t <= 2**64 - 1),
              n, text='calloc size ' + __import__(
                  'engine.cvc.cast', fromlist=['x']).src_of(ex.tu, n))
    p = _alloc(ex, st, n, a.t * b.t, 'calloc')
    return p


@extern('free', "releases a block obtained from malloc/calloc (or NULL)")
def c_free(ex, st, n, args):
    noimpure(st)
    p = ex.ev(args[0], st)
    if isinstance(p, PtrV) and p.region is not None:
        fr = dict(st.ghost.get('freed', {}))
        fr[p.region.uid] = (p.region, list(st.path()), n.get('line'))
        st.ghost['freed'] = fr
    return Opaque('void')


@extern('memcpy', "copies n bytes; both ranges must be valid")
def c_memcpy(ex, st, n, args):
    noimpure(st)
    d = ex.ev(args[0], st)
    s = ex.ev(args[1], st)
    k = toint(ex.ev(args[2], st))
    from engine.cvc.cast import src_of
    t = src_of(ex.tu, n)
    ex.bounds_oblig(d, k.t, st, n, 'memcpy destination: ' + t)
    ex.bounds_oblig(s, k.t, st, n, 'memcpy source: ' + t)
    for a_, b_ in ((s, d), (d, s)):
        # a copy between a matrix buffer and a temporary moves whole elements
        # of the matrix's typecode
        if isinstance(a_, PtrV) and a_.region is not None and \
                a_.region.kind == 'matbuf' and a_.region.owner is not None \
                and isinstance(b_, PtrV) and b_.region is not a_.region:
            o = a_.region.owner
            es = z3.If(o.id == 2, 16, 8)
            ex.oblige(st, 'copy-granularity', z3.And(
                k.t % es == 0, a_.off % es == 0,
                b_.off % es == 0 if isinstance(b_.off, z3.ExprRef) or
                isinstance(b_.off, int) else True), n,
                text='memcpy moves whole elements of %s: %s' % (o.name, t))
            break
    if isinstance(d, PtrV) and d.region is not None:
        st.stores.append((d.region, d.off, k.t, list(st.path()),
                          n.get('line')))
    return d


@extern('memset', "sets n bytes")
def c_memset(ex, st, n, args):
    noimpure(st)
    d = ex.ev(args[0], st)
    k = toint(ex.ev(args[2], st))
    from engine.cvc.cast import src_of
    ex.bounds_oblig(d, k.t, st, n, 'memset: ' + src_of(ex.tu, n))
    if isinstance(d, PtrV) and d.region is not None:
        st.stores.append((d.region, d.off, k.t, list(st.path()),
                          n.get('line')))
    return d


@extern('PyLong_FromLong', "returns a new int object (allocation failure "
        "not modelled)")
def long_fromlong(ex, st, n, args):
    v = ex.ev(args[0], st)
    o = ex.new_obj('int', fresh=True)
    o.extra['intval'] = v
    return PtrV(None, 0, 'PyObject', obj=o)


@extern('PyFloat_FromDouble', "returns a new float object")
def float_fromdouble(ex, st, n, args):
    v = ex.ev(args[0], st)
    o = ex.new_obj('float', fresh=True)
    o.extra['fval'] = v
    return PtrV(None, 0, 'PyObject', obj=o)


@extern('PyComplex_FromDoubles', "returns a new complex object")
def cplx_fromdoubles(ex, st, n, args):
    a = ex.ev(args[0], st)
    b = ex.ev(args[1], st)
    o = ex.new_obj('complex', fresh=True)
    o.extra['cval'] = (a, b)
    return PtrV(None, 0, 'PyObject', obj=o)


@extern('creal', "real part (identity on the abstract value)")
def c_creal(ex, st, n, args):
    v = ex.ev(args[0], st)
    return FltV(v.t, 'double') if isinstance(v, FltV) else v


for _nm in ('cimag', 'conj', 'sqrt', 'fabs', 'cabs', 'pow', 'exp',
            'log', 'cos', 'sin'):
    def _mk(nm):
        @extern(nm, "libm function, value not interpreted")
        def h(ex, st, n, args):
            vs = [ex.ev(a, st) for a in args]
            f = z3.Function(nm, *([z3.RealSort()] * (len(vs) + 1)))
            ts = [v.t if isinstance(v, FltV) else z3.ToReal(toint(v).t)
                  for v in vs]
            return FltV(f(*ts), n['ty'])
        return h
    _mk(_nm)


@extern('Py_INCREF', "reference count +1")
def py_incref(ex, st, n, args):
    return Opaque('void')


@extern('Py_DECREF', "reference count -1")
def py_decref(ex, st, n, args):
    return Opaque('void')


@extern('Py_XDECREF', "reference count -1 if non-NULL")
def py_xdecref(ex, st, n, args):
    return Opaque('void')


@extern('Py_XINCREF', "reference count +1 if non-NULL")
def py_xincref(ex, st, n, args):
    return Opaque('void')
