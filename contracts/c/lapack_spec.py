"""C18: wrapper-level contract of the LAPACK wrappers of lapack.c.

The specification of each wrapper is taken MECHANICALLY from its own
documentation string in the current lapack.c (the same text as
doc/source/lapack.rst): the signature line gives the keyword names, their
order and the documented default of every optional argument; the ARGUMENTS
section says for which arguments "If negative/zero, the default value is
used".  From that the generic post-condition below demands, for every path of
the wrapper (all argument values):

 kwlist               keyword names and order are the documented ones
 call-correspondence  every LAPACK call receives, for each integer/flag
                      parameter that has a documented wrapper argument of the
                      same name, the documented effective value (argument, or
                      its documented default), and for each array parameter
                      that points into a matrix argument, the buffer of the
                      argument of that name at the element offset offset<Name>
 type-dispatch        d-routines are called for 'd' matrices, z-routines for
                      'z' matrices
 info-mapping         a path that returns normally has info = 0 for its last
                      computational call; a path that fails after a
                      computational call raises ArithmeticError with info > 0
                      or ValueError with info < 0 (MemoryError only when an
                      allocation failed)
 reject-exception     a path that fails before any computational call raises
                      TypeError or ValueError (MemoryError for a failed
                      allocation)
 reject-clean         ... and has stored nothing into the arguments
 frame                where the documentation says "If ipiv is not provided
                      ... does not modify A", no store reaches A's buffer on
                      paths without ipiv
 accept-reachable     vacuity guard

What is NOT decided here (listed in the evidence): the numerical clauses of
C18 (backward-stable residuals, orthonormal factors, reconstruction, sorted
output, factor-then-solve = driver) - they are properties of the external
LAPACK on floating-point data.
"""
import re, ast, z3
from engine.cvc.exec import (Oblig, PtrV, IntV, BoolV, NULL, Unsupported,
                             PyObj, toint)

ALIAS = {'AB': ['A'], 'VT': ['Vt'], 'VS': ['Vs', 'V'], 'VSL': ['Vsl', 'Vl'],
         'VSR': ['Vsr', 'Vr'], 'w': ['W', 'w'], 'x': ['x'],
         'alpha': ['alpha', 'a'], 'beta': ['beta', 'b'],
         'C': ['C'], 'V': ['V', 'A', 'v']}
LD_OF = {'lda': 'A', 'ldab': 'A', 'ldb': 'B', 'ldc': 'C', 'ldu': 'U',
         'ldvt': 'Vt', 'ldz': 'Z', 'ldvs': 'Vs', 'ldvsl': 'Vsl',
         'ldvsr': 'Vsr'}
PTR_LD = {'A': 'lda', 'AB': 'ldab', 'B': 'ldb', 'C': 'ldc', 'U': 'ldu',
          'VT': 'ldvt', 'Z': 'ldz', 'VS': 'ldvs', 'VSL': 'ldvsl',
          'VSR': 'ldvsr'}


# ----------------------------------------------------------- documentation
def doc_of(tu, fn):
    m = re.search(r'static char doc_%s\[\]\s*=\s*((?:\s*"(?:[^"\\]|\\.)*"'
                  r'|\s*#[^\n]*\n)+)\s*;' % re.escape(fn), tu['src'])
    if not m:
        return None
    parts = re.findall(r'"((?:[^"\\]|\\.)*)"', m.group(1))
    return ''.join(parts).replace('\\n', '\n').replace('\\"', '"')


def split_top(s):
    out, depth, cur = [], 0, ''
    for ch_ in s:
        if ch_ in '([':
            depth += 1
        elif ch_ in ')]':
            depth -= 1
        if ch_ == ',' and depth == 0:
            out.append(cur)
            cur = ''
        else:
            cur += ch_
    if cur.strip():
        out.append(cur)
    return [x.strip() for x in out]


def parse_doc(doc, fn=None):
    """-> {'params': [(name, default text or None)], 'rules': {name: 'neg' |
    'zero'}, 'noipiv_frame': bool}"""
    head = doc.split('PURPOSE')[0]
    m = None
    if fn:
        m = re.search(r'\b[dz]?%s\((?!\))' % re.escape(fn), head)
    if not m:
        m = re.search(r'\b\w+\((?!\))', head)
    if not m:
        return None
    i = m.end()
    # the signature ends at the blank line before PURPOSE; parentheses are
    # not relied on (some documentation strings lack one)
    j = head.find('\n\n', i)
    sig = ' '.join(head[i:j if j >= 0 else len(head)].split())
    sig = sig.rstrip()
    if sig.endswith(')'):
        sig = sig[:-1]
    params = []
    # split at commas that are followed by "name =", "name ," or "name" end
    for item in re.split(r',\s*(?=[A-Za-z_]\w*\s*(?:=|,|$))', sig):
        item = item.strip()
        if not item:
            continue
        if '=' in item:
            nm, d = item.split('=', 1)
            params.append((nm.strip(), d.strip()))
        else:
            params.append((item, None))
    rules = {}
    m = re.search(r'ARGUMENTS\.?\n(.*)', doc, re.S)
    if m:
        cur, text = None, {}
        for line in m.group(1).split('\n'):
            mm = re.match(r'^([A-Za-z_][\w,]*)\s{2,}(.*)$', line)
            if mm:
                cur = mm.group(1)
                text[cur] = mm.group(2)
            elif cur and line.startswith(' '):
                text[cur] += ' ' + line.strip()
        for names, t in text.items():
            t = ' '.join(t.split())
            for nm in names.split(','):
                m1 = re.search(r"The default value is (\S+) if (\w+) is '(\w)'"
                               r" and (\S+) if \2\s*=\s*'(\w)'\.", t)
                m2 = re.search(r"The default value is (\S+) if (\w+) is "
                               r"'(\w)' or '(\w)', and (\S+) otherwise\.", t)
                zero = bool(re.search(r'If zero, the\s+(default\s+)?default',
                                      t))
                if m1 and zero:
                    # "X if jobz is 'N' and Y if jobz ='V'"
                    rules[nm] = ('cond', m1.group(2),
                                 [(m1.group(3), m1.group(1)),
                                  (m1.group(5), m1.group(4))], None)
                elif m2 and zero:
                    # "X if jobu is 'A' or 'S', and 1 otherwise"
                    rules[nm] = ('cond', m2.group(2),
                                 [(m2.group(3), m2.group(1)),
                                  (m2.group(4), m2.group(1))], m2.group(5))
                elif re.search(r'[Tt]he default value is\b(?! used)', t) or \
                        re.search(r'If \w+ <= 0', t):
                    # a default described in words (conditional defaults)
                    rules[nm] = 'unknown'
                elif re.search(r'If negative, the default', t):
                    rules[nm] = 'neg'
                elif re.search(r'If zero, the\s+(default\s+)?default', t):
                    rules[nm] = 'zero'
    purpose = ' '.join(doc.split('PURPOSE')[-1].split('ARGUMENTS')[0].split())
    frame = bool(re.search(r'ipiv is not provided[^.]*does not modify A',
                           purpose))
    return {'params': params, 'rules': rules, 'noipiv_frame': frame}


class Eff:
    """documented effective values of the integer arguments"""

    def __init__(self, parsed, spec):
        self.parsed, self.spec = parsed, spec
        self.defaults = dict(spec['params'])
        self.cache = {}

    def raw(self, name):
        v = self.parsed.get(name)
        if v is None or isinstance(v, PyObj):
            raise KeyError(name)
        return v

    def value(self, name):
        if name in self.cache:
            return self.cache[name]
        raw = self.raw(name)
        rule = self.spec['rules'].get(name)
        if rule == 'unknown':
            raise KeyError('default of %s is described in words' % name)
        if isinstance(rule, tuple) and rule[0] == 'cond':
            _, flag, cases, other = rule
            fv = self.raw(flag)

            def parse(d_):
                try:
                    return self.expr(ast.parse(d_, mode='eval').body)
                except SyntaxError:
                    raise KeyError('default of %s: %s' % (name, d_))
            dv = parse(other) if other is not None else None
            for ch_, ex_ in reversed(cases):
                val_ = parse(ex_)
                dv = val_ if dv is None else z3.If(fv == ord(ch_), val_, dv)
            v = z3.If(raw == 0, dv, raw)
            self.cache[name] = v
            return v
        if rule is None:
            v = raw
        else:
            d = self.defaults.get(name)
            if d is None:
                raise KeyError('no documented default for ' + name)
            try:
                tree = ast.parse(d, mode='eval').body
            except SyntaxError:
                # some documentation strings lack the closing parenthesis of
                # max(1,B.size[0]
                try:
                    tree = ast.parse(d + ')' * max(0, d.count('(') -
                                                   d.count(')')),
                                     mode='eval').body
                except SyntaxError:
                    raise KeyError('documented default of %s is not an '
                                   'expression: %s' % (name, d))
            dv = self.expr(tree)
            v = z3.If(raw < 0 if rule == 'neg' else raw == 0, dv, raw)
        self.cache[name] = v
        return v

    def expr(self, n):
        if isinstance(n, ast.Constant) and isinstance(n.value, int):
            return z3.IntVal(n.value)
        if isinstance(n, ast.Name):
            return self.value(n.id)
        if isinstance(n, ast.BinOp) and isinstance(n.op, (ast.Add, ast.Sub,
                                                          ast.Mult)):
            a, b = self.expr(n.left), self.expr(n.right)
            return a + b if isinstance(n.op, ast.Add) else (
                a - b if isinstance(n.op, ast.Sub) else a * b)
        if isinstance(n, ast.UnaryOp) and isinstance(n.op, ast.USub):
            return -self.expr(n.operand)
        if isinstance(n, ast.Call) and isinstance(n.func, ast.Name) and \
                n.func.id.lower() in ('max', 'min') and len(n.args) == 2:
            a, b = self.expr(n.args[0]), self.expr(n.args[1])
            return z3.If(a >= b, a, b) if n.func.id.lower() == 'max' else \
                z3.If(a <= b, a, b)
        if isinstance(n, ast.Call) and isinstance(n.func, ast.Name) and \
                n.func.id.lower() in ('max', 'min') and len(n.args) == 1 and \
                isinstance(n.args[0], ast.Attribute) and \
                n.args[0].attr == 'size' and isinstance(n.args[0].value,
                                                        ast.Name):
            o = self.parsed.get(n.args[0].value.id)
            if isinstance(o, PyObj):
                a, b = o.nrows, o.ncols
                return z3.If(a >= b, a, b) if n.func.id.lower() == 'max' \
                    else z3.If(a <= b, a, b)
        if isinstance(n, ast.Call) and isinstance(n.func, ast.Name) and \
                n.func.id == 'len' and isinstance(n.args[0], ast.Name):
            o = self.parsed.get(n.args[0].id)
            if isinstance(o, PyObj):
                return o.nrows * o.ncols
        if isinstance(n, ast.Subscript) and isinstance(n.value, ast.Attribute)\
                and n.value.attr == 'size' and isinstance(n.value.value,
                                                          ast.Name):
            o = self.parsed.get(n.value.value.id)
            idx = n.slice
            if isinstance(o, PyObj) and isinstance(idx, ast.Constant):
                return o.nrows if idx.value == 0 else o.ncols
        raise KeyError('documented default not interpretable: ' +
                       ast.dump(n)[:60])


# the wrapper named X wraps the LAPACK routines dX / zX; the real counterpart
# of a Hermitian / unitary routine is the symmetric / orthogonal one.  The
# drivers sysv/hesv ask xSYTRF/xHETRF for the workspace size.
HELPERS = {'sysv': ('sytrf',), 'hesv': ('hetrf',)}


def real_name(base):
    if base.startswith('he'):
        return 'sy' + base[2:]
    if base.startswith('un'):
        return 'or' + base[2:]
    return base


def routine_ok(fn, routine):
    tc, base = routine[0], routine[1:-1]
    allowed = (fn,) + HELPERS.get(fn, ())
    if tc == 'z':
        return base in allowed
    return base in [real_name(a) for a in allowed]


def es_of(o):
    return z3.If(o.id == 2, 16, 8)


def post(ex, finished, extra_obs):
    from contracts.c import extern_lapack as XL
    fname = ex.fname
    summ = {'paths': {'parse_fail': 0, 'error': 0, 'ok': 0}, 'calls': [],
            'skipped': []}
    doc = doc_of(ex.tu, fname)
    spec = parse_doc(doc, fname) if doc else None
    if spec is None:
        raise Unsupported('no documentation string doc_%s' % fname)

    def ob(kind, pc, goal, text, line=0):
        extra_obs.append(Oblig('%s:%s:%s' % (fname, kind, text), kind,
                               list(pc), z3.simplify(goal), text, line, None))

    skipped = set()
    any_ok = False
    kw_done = False
    for st, kind, val in finished:
        if kind != 'return':
            raise Unsupported('wrapper path ends without return')
        pok = st.ghost.get('parse_ok')
        if pok is None:
            raise Unsupported('path without argument parsing')
        pc = st.path()
        comp = [r for r in st.calls if r.name in XL.ROUTINES and
                not r.args.get('query')]
        is_err = val is NULL or (isinstance(val, PtrV) and val.obj is None
                                 and val.region is None)
        matstores = [s for s in st.stores if s[0].kind in ('matbuf', 'spbuf')]
        if ex.check(pc, [pok]) == z3.unsat:
            summ['paths']['parse_fail'] += 1
            ob('reject-clean', pc, z3.BoolVal(not comp and not matstores),
               'argument-parse failure returns before any call or store')
            continue
        parsed = st.ghost.get('parsed', {})
        summ['params'] = st.ghost.get('parse_codes')
        summ['mats'] = [k for k, v in parsed.items() if isinstance(v, PyObj)]
        if not kw_done:
            kw_done = True
            got = list(st.ghost.get('parse_order') or [])
            want = [p[0] for p in spec['params']]
            # keywords the documentation does not mention are tolerated (they
            # are reported); every documented one must be there, in order
            extra = [g for g in got if g not in want]
            if extra:
                skipped.add('undocumented keywords accepted: ' +
                            ' '.join(extra))
            ob('kwlist', [], z3.BoolVal([g for g in got if g in want] ==
                                        want),
               'every documented keyword (%s) is accepted, in the '
               'documented order; the wrapper has (%s)' % (
                   ' '.join(want), ' '.join(got)))
        eff = Eff(parsed, spec)
        alloc_failed = st.exc == 'PyExc_MemoryError'
        # ---------------------------------------------------- error paths
        if is_err and not comp:
            summ['paths']['error'] += 1
            ob('reject-exception', pc, z3.BoolVal(st.exc in (
                'PyExc_TypeError', 'PyExc_ValueError', 'PyExc_MemoryError')),
               'error return before the computation raises TypeError or '
               'ValueError (got %s)' % st.exc)
            ob('reject-clean', pc, z3.BoolVal(not matstores),
               'error return before the computation has stored nothing into '
               'the arguments')
            continue
        if comp:
            last = comp[-1]
            info = last.args.get('outs', {}).get('info')
            if info is not None:
                if is_err and not alloc_failed:
                    exc = st.exc
                    ob('info-mapping', pc, z3.Or(
                        z3.And(info > 0, z3.BoolVal(
                            exc == 'PyExc_ArithmeticError')),
                        z3.And(info < 0, z3.BoolVal(
                            exc == 'PyExc_ValueError'))),
                       'failure after %s raises ArithmeticError for info > 0 '
                       'and ValueError for info < 0' % last.name, last.line)
                elif not is_err:
                    ob('info-mapping', pc, info == 0,
                       'normal return after %s only with info = 0' %
                       last.name, last.line)
        if is_err:
            summ['paths']['error'] += 1
        else:
            summ['paths']['ok'] += 1
            any_ok = True
        # ---------------------------------------- call correspondence
        mats = {k: v for k, v in parsed.items() if isinstance(v, PyObj)}
        byregion = {}
        for k, o in mats.items():
            if o.buf is not None:
                byregion[id(o.buf)] = (k, o)
        first_mat = None
        for (nm, code, opt) in (st.ghost.get('parse_codes') or []):
            if code == 'O' and not opt:
                first_mat = parsed.get(nm)
                break
        for rec in st.calls:
            rt = XL.ROUTINES.get(rec.name)
            if rt is None:
                continue
            summ['calls'].append(rec.name)
            goals, texts = [], []
            goals.append(z3.BoolVal(routine_ok(fname, rec.name)))
            texts.append('is the LAPACK routine of this wrapper (%s wraps '
                         'd%s / z%s)' % (fname, real_name(fname), fname))
            temp = set()         # LAPACK array params on wrapper temporaries
            for X, p in rec.args['ptrs'].items():
                if not isinstance(p, PtrV) or p.region is None:
                    continue
                if p.region.kind != 'matbuf':
                    temp.add(X)
                    continue
                ent = byregion.get(id(p.region))
                if ent is None:
                    continue
                k, o = ent
                names = [X] + ALIAS.get(X, []) + [X.upper(), X.lower(),
                                                  X.capitalize()]
                if k not in names:
                    # e.g. B of xGETRS used for the inverse in getri: not a
                    # documented correspondence by name
                    skipped.add('%s: array %s is passed argument %s' % (
                        rec.name, X, k))
                    continue
                offname = None
                ints_ = [c_ for c_ in parsed if not isinstance(parsed[c_],
                                                               PyObj)]
                if 'offset' + k in ints_:
                    offname = 'offset' + k
                else:
                    cands = [c_ for c_ in ints_ if c_.startswith('offset')
                             and ('offset' + k).lower().startswith(
                                 c_.lower()) and 'offset' + c_[6:] not in
                             ['offset' + m_ for m_ in mats if m_ != k]]
                    if len(cands) == 1:
                        offname = cands[0]
                if offname is None:
                    if any(c_.startswith(('offset', 'o')) and
                           c_.lower().endswith(k.lower()) and c_ != k
                           for c_ in parsed):
                        skipped.add('%s: offset argument of %s has an '
                                    'undocumented name' % (rec.name, k))
                        continue
                    # no offset argument: the array starts at the buffer
                    goals.append(p.off == 0)
                    texts.append('%s = %s' % (X, k))
                    continue
                goals.append(p.off == parsed[offname] * es_of(o))
                texts.append('%s = %s + %s' % (X, k, offname))
            for pn, t in rec.args['ints'].items():
                if pn in XL.WORKSIZE:
                    continue
                wn = None
                if pn in LD_OF:
                    arr = [a for a, l in PTR_LD.items() if l == pn]
                    # a leading dimension only has to be the documented one
                    # where its array is the argument's buffer: not for a
                    # temporary of the wrapper, not in a workspace query
                    if any(a in temp for a in arr) or rec.args.get('query'):
                        continue
                    wn = 'ld' + LD_OF[pn]
                elif pn in parsed and not isinstance(parsed[pn], PyObj):
                    wn = pn
                if wn is None or wn not in parsed:
                    continue
                try:
                    want = eff.value(wn)
                except KeyError as e:
                    skipped.add('%s of %s: %s' % (wn, fname, e))
                    continue
                if pn in XL.CHARS:
                    # a real routine has no conjugate transpose: 'C' is
                    # passed as 'T'
                    g = t == want
                    if pn.startswith('trans') and first_mat is not None:
                        g = z3.Or(g, z3.And(first_mat.id == 1, want == 67,
                                            t == 84))
                    goals.append(g)
                else:
                    goals.append(t == want)
                texts.append('%s = %s' % (pn, wn))
            if mats and rec.name[0] in 'dz':
                want_id = 1 if rec.name[0] == 'd' else 2
                goals.append(z3.Or([o.id == want_id for o in mats.values()]))
                texts.append('%s-routine only for a %s matrix' % (
                    rec.name[0], "'d'" if want_id == 1 else "'z'"))
            for g, t in zip(goals, texts):
                ob('call-correspondence', rec.pc, g,
                   '%s at line %s: %s' % (rec.name, rec.line, t), rec.line)
        # ------------------------------------------------------- frame
        if spec['noipiv_frame'] and 'ipiv' in mats and 'A' in mats:
            A = mats['A']
            g = z3.Bool('given(%s)' % mats['ipiv'].name)
            for srec in st.stores:
                r, off, nb, spc, line = srec[:5]
                if A.buf is not None and r is A.buf:
                    ob('frame', spc, z3.Or(g, nb <= 0),
                       'A is not modified when ipiv is not provided (store '
                       'by %s at line %s)' % (srec[5] if len(srec) > 5 else
                                              '?', line), line)
    # ---------------------------------------- frame assumed on the Python side
    try:
        from contracts.py.extern_cvxopt import LIB
        assumed = LIB.mutators.get('cvxopt.lapack.' + fname)
    except Exception:
        assumed = None
    if assumed is not None:
        allowed = set(x.split()[0] for x in assumed)
        seen = set()
        for st, kind, val in finished:
            parsed = st.ghost.get('parsed', {})
            owner = {}
            for k_, o_ in parsed.items():
                if isinstance(o_, PyObj) and o_.buf is not None:
                    owner[id(o_.buf)] = k_
            for srec in st.stores:
                r = srec[0]
                if r.kind != 'matbuf' or id(r) not in owner:
                    continue
                nm = owner[id(r)]
                key = (nm, srec[4])
                if key in seen:
                    continue
                seen.add(key)
                ob('kernel-frame', srec[3], z3.BoolVal(nm in allowed),
                   'the store into argument %s at line %s is one the '
                   'Python-side contract of lapack.%s lists (%s)' % (
                       nm, srec[4], fname, ', '.join(sorted(allowed))),
                   srec[4])
    ob('accept-reachable', [], z3.BoolVal(any_ok),
       'some path accepts its arguments (vacuity guard)')
    summ['skipped'] = sorted(skipped)
    return summ
