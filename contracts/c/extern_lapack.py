"""Assumed contracts of the Fortran LAPACK routines called by src/C/lapack.c
(netlib LAPACK documentation).  TRUSTED BASE.

Entry: LR(base, prefixes, params, arrays, requires, lwork=..., ...)

  params    parameter names in calling order (all passed by reference)
  arrays    name -> (mode, footprint fn(p) in elements[, element kind])
            element kind: 'T' routine's data type (default), 'R' real (8
            bytes also in z-routines), 'I' Fortran INTEGER (4 bytes),
            'L' LOGICAL (4 bytes)
  requires  argument-validity conditions (violation => XERBLA)
  workspace parameters (lwork, lrwork, liwork): value -1 in ANY of them is a
            workspace query: only the first element of each work array whose
            size is an argument of the routine (work/lwork, rwork/lrwork,
            iwork/liwork) is written (with the optimal size, assumed to be
            at least the documented minimum for the same arguments) and no
            other array is accessed; otherwise the work array must hold that
            many elements and the documented minimum (minwork[name](p)) is
            required.
  outs      scalar outputs (info, m, sdim, rank ...): fresh values

Footprint helpers as in extern_blas.py.
"""
import z3
from engine.cvc.exec import (IntV, BoolV, FltV, PtrV, Opaque, NULL, CallRec,
                             Unsupported, toint, Impure, StructV, Region,
                             NeedFork, StrV)
from contracts.c.extern_blas import (zabs, zmax, zmin, vec, ge, ch, is_,
                                     req, nonneg)

ROUTINES = {}
DEVIATIONS = [
    'assumption: xSYEVR/xHEEVR do not reference ISUPPZ when jobz = \'N\' '
    '(every use in the reference routine is under WANTZ)',
    'assumption: ZGESDD needs 5*mn*mn + 5*mn doubles of RWORK for jobz != '
    '\'N\' (first term of the LAPACK >= 3.7 documentation); the second '
    'documented term 2*mx*mn + 2*mn*mn + mn is not demanded: a valgrind '
    'sweep over the affected shapes on the installed LAPACK shows no access '
    'beyond the first term',
    'assumption: a LAPACK workspace query returns a size in [documented '
    'minimum, INT_MAX] that is valid for the same arguments']
CHARS = {'trans', 'transa', 'transb', 'uplo', 'diag', 'side', 'jobz',
         'range', 'jobu', 'jobvt', 'vect', 'job', 'compq', 'norm', 'direct',
         'storev', 'sort', 'sense', 'jobvl', 'jobvr', 'jobvs', 'jobvsl',
         'jobvsr', 'itype_c', 'fact', 'equed', 'balanc', 'compz', 'howmny',
         'eigsrc', 'initv'}
WORKSIZE = {'lwork': 'work', 'lrwork': 'rwork', 'liwork': 'iwork'}
REALS = {'vl', 'vu', 'abstol', 'rcond', 'anorm', 'alpha_r'}
OUT_SCALARS = {'info', 'sdim', 'rank', 'mfound', 'm_out', 'ns'}


class LRoutine:
    def __init__(self, name, params, arrays, requires=(), minwork=None,
                 elsize=8, outs=(), ret=None, funcs=()):
        self.name = name
        self.params = params.split()
        self.arrays = arrays
        self.requires = list(requires)
        self.minwork = minwork or {}
        self.elsize = elsize
        self.outs = set(outs) | (OUT_SCALARS & set(self.params))
        self.ret = ret
        self.funcs = set(funcs)      # parameters that are function pointers
        self.when = None


def LR(base, prefixes, params, arrays, requires=(), minwork=None, outs=(),
       names=None, ret=None, funcs=()):
    for i, pf in enumerate(prefixes):
        nm = (names[i] if names else pf + base) + '_'
        ROUTINES[nm] = LRoutine(nm, params, arrays, requires, minwork,
                                16 if pf == 'z' else 8, outs, ret, funcs)


def esz(rt, kind):
    return {'T': rt.elsize, 'R': 8, 'I': 4, 'L': 4}[kind]


def mn(p):
    return zmin(p['m'], p['n'])


# ------------------------------------------------------------------ helpers
def flag(name, chars):
    return req("%s in '%s'" % (name, chars),
               lambda p: is_(p, name, *chars))


def _val(p, d):
    if callable(d):
        return d(p)
    if isinstance(d, int):
        return z3.IntVal(d)
    return p[d]


def ldreq(ld, *dims, **kw):
    """ld >= max(1, dims...)"""
    text = kw.get('text') or '%s >= max(1,%s)' % (ld, ','.join(
        d if isinstance(d, str) else '...' for d in dims))

    def f(p):
        m = z3.IntVal(1)
        for d in dims:
            m = zmax(m, _val(p, d))
        return p[ld] >= m
    return req(text, f)


def cnt(n, off=0, mul=1):
    """mul*n + off elements (0 if that is negative)"""
    return lambda p: zmax(0, mul * _val(p, n) + off)


def one(p):
    return z3.IntVal(1)


def isch(p, name, c):
    return p[name] == ord(c)


def mx(p):
    return zmax(p['m'], p['n'])


# work arrays whose size is an argument: dimension (MAX(1,LWORK))
WORK = ('w', lambda p: zmax(1, p['lwork']))
RWORKL = ('w', lambda p: zmax(1, p['lrwork']), 'R')
IWORKL = ('w', lambda p: zmax(1, p['liwork']), 'I')

# ------------------------------------------------- auxiliary routines
# xLARFG: X dimension (1+(N-2)*abs(INCX)), INCX > 0; ALPHA, TAU scalars.
# (no XERBLA in the xLA* auxiliaries: requires = documented constraints)
LR('larfg', 'dz', 'n alpha x incx tau',
   {'alpha': ('rw', one),
    'x': ('rw', lambda p: z3.If(p['n'] > 1,
                                1 + (p['n'] - 2) * zabs(p['incx']), 0)),
    'tau': ('w', one)},
   [req('incx > 0', lambda p: p['incx'] > 0)])

# xLARFX: V (M) if SIDE='L' / (N) if 'R'; C (LDC,N); WORK (N) if 'L' / (M)
LR('larfx', 'dz', 'side m n V tau C ldc work',
   {'V': ('r', lambda p: zmax(0, z3.If(isch(p, 'side', 'L'), p['m'],
                                       p['n']))),
    'tau': ('r', one),
    'C': ('rw', ge('m', 'n', 'ldc')),
    'work': ('w', lambda p: zmax(0, z3.If(isch(p, 'side', 'L'), p['n'],
                                          p['m'])))},
   [flag('side', 'LR'), ldreq('ldc', 'm')])

LR('lacpy', 'dz', 'uplo m n A lda B ldb',
   {'A': ('r', ge('m', 'n', 'lda')), 'B': ('w', ge('m', 'n', 'ldb'))},
   [nonneg('m'), nonneg('n'), ldreq('lda', 'm'), ldreq('ldb', 'm')])

# ------------------------------------------------- general (LU)
LR('getrf', 'dz', 'm n A lda ipiv info',
   {'A': ('rw', ge('m', 'n', 'lda')),
    'ipiv': ('w', lambda p: zmax(0, mn(p)), 'I')},
   [nonneg('m'), nonneg('n'), ldreq('lda', 'm')])

LR('getrs', 'dz', 'trans n nrhs A lda ipiv B ldb info',
   {'A': ('r', ge('n', 'n', 'lda')), 'ipiv': ('r', cnt('n'), 'I'),
    'B': ('rw', ge('n', 'nrhs', 'ldb'))},
   [flag('trans', 'NTC'), nonneg('n'), nonneg('nrhs'), ldreq('lda', 'n'),
    ldreq('ldb', 'n')])

LR('getri', 'dz', 'n A lda ipiv work lwork info',
   {'A': ('rw', ge('n', 'n', 'lda')), 'ipiv': ('r', cnt('n'), 'I'),
    'work': WORK},
   [nonneg('n'), ldreq('lda', 'n')],
   minwork={'lwork': lambda p: zmax(1, p['n'])})

LR('gesv', 'dz', 'n nrhs A lda ipiv B ldb info',
   {'A': ('rw', ge('n', 'n', 'lda')), 'ipiv': ('w', cnt('n'), 'I'),
    'B': ('rw', ge('n', 'nrhs', 'ldb'))},
   [nonneg('n'), nonneg('nrhs'), ldreq('lda', 'n'), ldreq('ldb', 'n')])

# ------------------------------------------------- general band
_gbrows = lambda p: 2 * p['kl'] + p['ku'] + 1
_ldab_gb = req('ldab >= 2*kl+ku+1', lambda p: p['ldab'] >= _gbrows(p))
LR('gbtrf', 'dz', 'm n kl ku AB ldab ipiv info',
   {'AB': ('rw', ge(_gbrows, 'n', 'ldab')),
    'ipiv': ('w', lambda p: zmax(0, mn(p)), 'I')},
   [nonneg('m'), nonneg('n'), nonneg('kl'), nonneg('ku'), _ldab_gb])

LR('gbtrs', 'dz', 'trans n kl ku nrhs AB ldab ipiv B ldb info',
   {'AB': ('r', ge(_gbrows, 'n', 'ldab')), 'ipiv': ('r', cnt('n'), 'I'),
    'B': ('rw', ge('n', 'nrhs', 'ldb'))},
   [flag('trans', 'NTC'), nonneg('n'), nonneg('kl'), nonneg('ku'),
    nonneg('nrhs'), _ldab_gb, ldreq('ldb', 'n')])

LR('gbsv', 'dz', 'n kl ku nrhs AB ldab ipiv B ldb info',
   {'AB': ('rw', ge(_gbrows, 'n', 'ldab')), 'ipiv': ('w', cnt('n'), 'I'),
    'B': ('rw', ge('n', 'nrhs', 'ldb'))},
   [nonneg('n'), nonneg('kl'), nonneg('ku'), nonneg('nrhs'), _ldab_gb,
    ldreq('ldb', 'n')])

# ------------------------------------------------- general tridiagonal
LR('gttrf', 'dz', 'n dl d du du2 ipiv info',
   {'dl': ('rw', cnt('n', -1)), 'd': ('rw', cnt('n')),
    'du': ('rw', cnt('n', -1)), 'du2': ('w', cnt('n', -2)),
    'ipiv': ('w', cnt('n'), 'I')},
   [nonneg('n')])

LR('gttrs', 'dz', 'trans n nrhs dl d du du2 ipiv B ldb info',
   {'dl': ('r', cnt('n', -1)), 'd': ('r', cnt('n')),
    'du': ('r', cnt('n', -1)), 'du2': ('r', cnt('n', -2)),
    'ipiv': ('r', cnt('n'), 'I'), 'B': ('rw', ge('n', 'nrhs', 'ldb'))},
   [flag('trans', 'NTC'), nonneg('n'), nonneg('nrhs'), ldreq('ldb', 'n')])

LR('gtsv', 'dz', 'n nrhs dl d du B ldb info',
   {'dl': ('rw', cnt('n', -1)), 'd': ('rw', cnt('n')),
    'du': ('rw', cnt('n', -1)), 'B': ('rw', ge('n', 'nrhs', 'ldb'))},
   [nonneg('n'), nonneg('nrhs'), ldreq('ldb', 'n')])

# ------------------------------------------------- positive definite
_uplo = flag('uplo', 'UL')
LR('potrf', 'dz', 'uplo n A lda info',
   {'A': ('rw', ge('n', 'n', 'lda'))},
   [_uplo, nonneg('n'), ldreq('lda', 'n')])

LR('potrs', 'dz', 'uplo n nrhs A lda B ldb info',
   {'A': ('r', ge('n', 'n', 'lda')), 'B': ('rw', ge('n', 'nrhs', 'ldb'))},
   [_uplo, nonneg('n'), nonneg('nrhs'), ldreq('lda', 'n'),
    ldreq('ldb', 'n')])

LR('potri', 'dz', 'uplo n A lda info',
   {'A': ('rw', ge('n', 'n', 'lda'))},
   [_uplo, nonneg('n'), ldreq('lda', 'n')])

LR('posv', 'dz', 'uplo n nrhs A lda B ldb info',
   {'A': ('rw', ge('n', 'n', 'lda')), 'B': ('rw', ge('n', 'nrhs', 'ldb'))},
   [_uplo, nonneg('n'), nonneg('nrhs'), ldreq('lda', 'n'),
    ldreq('ldb', 'n')])

# ------------------------------------------------- positive definite band
_pbrows = lambda p: p['kd'] + 1
_ldab_pb = req('ldab >= kd+1', lambda p: p['ldab'] >= p['kd'] + 1)
LR('pbtrf', 'dz', 'uplo n kd AB ldab info',
   {'AB': ('rw', ge(_pbrows, 'n', 'ldab'))},
   [_uplo, nonneg('n'), nonneg('kd'), _ldab_pb])

LR('pbtrs', 'dz', 'uplo n kd nrhs AB ldab B ldb info',
   {'AB': ('r', ge(_pbrows, 'n', 'ldab')),
    'B': ('rw', ge('n', 'nrhs', 'ldb'))},
   [_uplo, nonneg('n'), nonneg('kd'), nonneg('nrhs'), _ldab_pb,
    ldreq('ldb', 'n')])

LR('pbsv', 'dz', 'uplo n kd nrhs AB ldab B ldb info',
   {'AB': ('rw', ge(_pbrows, 'n', 'ldab')),
    'B': ('rw', ge('n', 'nrhs', 'ldb'))},
   [_uplo, nonneg('n'), nonneg('kd'), nonneg('nrhs'), _ldab_pb,
    ldreq('ldb', 'n')])

# ------------------------------------------- positive definite tridiagonal
# D is a real array also in the z-routines
LR('pttrf', 'dz', 'n d e info',
   {'d': ('rw', cnt('n'), 'R'), 'e': ('rw', cnt('n', -1))},
   [nonneg('n')])

LR('pttrs', 'd', 'n nrhs d e B ldb info',
   {'d': ('r', cnt('n'), 'R'), 'e': ('r', cnt('n', -1)),
    'B': ('rw', ge('n', 'nrhs', 'ldb'))},
   [nonneg('n'), nonneg('nrhs'), ldreq('ldb', 'n')])

LR('pttrs', 'z', 'uplo n nrhs d e B ldb info',
   {'d': ('r', cnt('n'), 'R'), 'e': ('r', cnt('n', -1)),
    'B': ('rw', ge('n', 'nrhs', 'ldb'))},
   [_uplo, nonneg('n'), nonneg('nrhs'), ldreq('ldb', 'n')])

LR('ptsv', 'dz', 'n nrhs d e B ldb info',
   {'d': ('rw', cnt('n'), 'R'), 'e': ('rw', cnt('n', -1)),
    'B': ('rw', ge('n', 'nrhs', 'ldb'))},
   [nonneg('n'), nonneg('nrhs'), ldreq('ldb', 'n')])

# ------------------------------------------------- symmetric / Hermitian
_sy = ['dsytrf', 'zsytrf', 'zhetrf']
LR('sytrf', 'dzz', 'uplo n A lda ipiv work lwork info',
   {'A': ('rw', ge('n', 'n', 'lda')), 'ipiv': ('w', cnt('n'), 'I'),
    'work': WORK},
   [_uplo, nonneg('n'), ldreq('lda', 'n')],
   minwork={'lwork': lambda p: z3.IntVal(1)}, names=_sy)

LR('sytrs', 'dzz', 'uplo n nrhs A lda ipiv B ldb info',
   {'A': ('r', ge('n', 'n', 'lda')), 'ipiv': ('r', cnt('n'), 'I'),
    'B': ('rw', ge('n', 'nrhs', 'ldb'))},
   [_uplo, nonneg('n'), nonneg('nrhs'), ldreq('lda', 'n'),
    ldreq('ldb', 'n')], names=['dsytrs', 'zsytrs', 'zhetrs'])

# WORK: dimension (N) in DSYTRI and ZHETRI, (2*N) in ZSYTRI
for _nm, _wk in (('dsytri', 1), ('zsytri', 2), ('zhetri', 1)):
    LR(None, _nm[0], 'uplo n A lda ipiv work info',
       {'A': ('rw', ge('n', 'n', 'lda')), 'ipiv': ('r', cnt('n'), 'I'),
        'work': ('w', cnt('n', mul=_wk))},
       [_uplo, nonneg('n'), ldreq('lda', 'n')], names=[_nm])

LR('sysv', 'dzz', 'uplo n nrhs A lda ipiv B ldb work lwork info',
   {'A': ('rw', ge('n', 'n', 'lda')), 'ipiv': ('w', cnt('n'), 'I'),
    'B': ('rw', ge('n', 'nrhs', 'ldb')), 'work': WORK},
   [_uplo, nonneg('n'), nonneg('nrhs'), ldreq('lda', 'n'),
    ldreq('ldb', 'n')],
   minwork={'lwork': lambda p: z3.IntVal(1)},
   names=['dsysv', 'zsysv', 'zhesv'])

# ------------------------------------------------- triangular
LR('trtrs', 'dz', 'uplo trans diag n nrhs A lda B ldb info',
   {'A': ('r', ge('n', 'n', 'lda')), 'B': ('rw', ge('n', 'nrhs', 'ldb'))},
   [_uplo, flag('trans', 'NTC'), flag('diag', 'NU'), nonneg('n'),
    nonneg('nrhs'), ldreq('lda', 'n'), ldreq('ldb', 'n')])

LR('trtri', 'dz', 'uplo diag n A lda info',
   {'A': ('rw', ge('n', 'n', 'lda'))},
   [_uplo, flag('diag', 'NU'), nonneg('n'), ldreq('lda', 'n')])

LR('tbtrs', 'dz', 'uplo trans diag n kd nrhs AB ldab B ldb info',
   {'AB': ('r', ge(_pbrows, 'n', 'ldab')),
    'B': ('rw', ge('n', 'nrhs', 'ldb'))},
   [_uplo, flag('trans', 'NTC'), flag('diag', 'NU'), nonneg('n'),
    nonneg('kd'), nonneg('nrhs'), _ldab_pb, ldreq('ldb', 'n')])

# ------------------------------------------------- least squares, QR, LQ
LR('gels', 'd', 'trans m n nrhs A lda B ldb work lwork info',
   {'A': ('rw', ge('m', 'n', 'lda')),
    'B': ('rw', ge(mx, 'nrhs', 'ldb')),
    'work': WORK},
   [flag('trans', 'NT'), nonneg('m'), nonneg('n'), nonneg('nrhs'),
    ldreq('lda', 'm'), ldreq('ldb', 'm', 'n')],
   minwork={'lwork': lambda p: zmax(1, mn(p) + zmax(mn(p), p['nrhs']))})
LR('gels', 'z', 'trans m n nrhs A lda B ldb work lwork info',
   {'A': ('rw', ge('m', 'n', 'lda')),
    'B': ('rw', ge(mx, 'nrhs', 'ldb')),
    'work': WORK},
   [flag('trans', 'NC'), nonneg('m'), nonneg('n'), nonneg('nrhs'),
    ldreq('lda', 'm'), ldreq('ldb', 'm', 'n')],
   minwork={'lwork': lambda p: zmax(1, mn(p) + zmax(mn(p), p['nrhs']))})

_tau_mn = ('w', lambda p: zmax(0, mn(p)))
LR('geqrf', 'dz', 'm n A lda tau work lwork info',
   {'A': ('rw', ge('m', 'n', 'lda')), 'tau': _tau_mn, 'work': WORK},
   [nonneg('m'), nonneg('n'), ldreq('lda', 'm')],
   minwork={'lwork': lambda p: zmax(1, p['n'])})

LR('gelqf', 'dz', 'm n A lda tau work lwork info',
   {'A': ('rw', ge('m', 'n', 'lda')), 'tau': _tau_mn, 'work': WORK},
   [nonneg('m'), nonneg('n'), ldreq('lda', 'm')],
   minwork={'lwork': lambda p: zmax(1, p['m'])})

_nq = lambda p: z3.If(isch(p, 'side', 'L'), p['m'], p['n'])
_nw = lambda p: z3.If(isch(p, 'side', 'L'), p['n'], p['m'])
_kq = req('0 <= k <= nq', lambda p: z3.And(p['k'] >= 0, p['k'] <= _nq(p)))
for _nm, _tr in (('dormqr', 'NT'), ('zunmqr', 'NC')):
    # A (LDA,K), LDA >= max(1,nq); the i-th column holds reflector i
    LR(None, _nm[0], 'side trans m n k A lda tau C ldc work lwork info',
       {'A': ('r', ge(_nq, 'k', 'lda')), 'tau': ('r', cnt('k')),
        'C': ('rw', ge('m', 'n', 'ldc')), 'work': WORK},
       [flag('side', 'LR'), flag('trans', _tr), nonneg('m'), nonneg('n'),
        _kq, ldreq('lda', _nq, text='lda >= max(1,nq)'), ldreq('ldc', 'm')],
       minwork={'lwork': lambda p: zmax(1, _nw(p))}, names=[_nm])
for _nm, _tr in (('dormlq', 'NT'), ('zunmlq', 'NC')):
    # A (LDA,M) if SIDE='L', (LDA,N) if SIDE='R'; LDA >= max(1,K)
    LR(None, _nm[0], 'side trans m n k A lda tau C ldc work lwork info',
       {'A': ('r', ge('k', _nq, 'lda')), 'tau': ('r', cnt('k')),
        'C': ('rw', ge('m', 'n', 'ldc')), 'work': WORK},
       [flag('side', 'LR'), flag('trans', _tr), nonneg('m'), nonneg('n'),
        _kq, ldreq('lda', 'k'), ldreq('ldc', 'm')],
       minwork={'lwork': lambda p: zmax(1, _nw(p))}, names=[_nm])

LR('orgqr', 'dz', 'm n k A lda tau work lwork info',
   {'A': ('rw', ge('m', 'n', 'lda')), 'tau': ('r', cnt('k')),
    'work': WORK},
   [nonneg('m'),
    req('0 <= n <= m', lambda p: z3.And(p['n'] >= 0, p['n'] <= p['m'])),
    req('0 <= k <= n', lambda p: z3.And(p['k'] >= 0, p['k'] <= p['n'])),
    ldreq('lda', 'm')],
   minwork={'lwork': lambda p: zmax(1, p['n'])},
   names=['dorgqr', 'zungqr'])

LR('orglq', 'dz', 'm n k A lda tau work lwork info',
   {'A': ('rw', ge('m', 'n', 'lda')), 'tau': ('r', cnt('k')),
    'work': WORK},
   [nonneg('m'), req('n >= m', lambda p: p['n'] >= p['m']),
    req('0 <= k <= m', lambda p: z3.And(p['k'] >= 0, p['k'] <= p['m'])),
    ldreq('lda', 'm')],
   minwork={'lwork': lambda p: zmax(1, p['m'])},
   names=['dorglq', 'zunglq'])

# xGEQP3: LWORK >= 3*N+1 (D), >= N+1 (Z); RWORK (2*N)
LR('geqp3', 'd', 'm n A lda jpvt tau work lwork info',
   {'A': ('rw', ge('m', 'n', 'lda')), 'jpvt': ('rw', cnt('n'), 'I'),
    'tau': _tau_mn, 'work': WORK},
   [nonneg('m'), nonneg('n'), ldreq('lda', 'm')],
   minwork={'lwork': lambda p: 3 * p['n'] + 1})
LR('geqp3', 'z', 'm n A lda jpvt tau work lwork rwork info',
   {'A': ('rw', ge('m', 'n', 'lda')), 'jpvt': ('rw', cnt('n'), 'I'),
    'tau': _tau_mn, 'work': WORK, 'rwork': ('w', cnt('n', mul=2), 'R')},
   [nonneg('m'), nonneg('n'), ldreq('lda', 'm')],
   minwork={'lwork': lambda p: p['n'] + 1})

# ------------------------------------------------- symmetric eigenproblems
_jobz = flag('jobz', 'NV')
_W = ('w', cnt('n'), 'R')
LR('syev', 'd', 'jobz uplo n A lda W work lwork info',
   {'A': ('rw', ge('n', 'n', 'lda')), 'W': _W, 'work': WORK},
   [_jobz, _uplo, nonneg('n'), ldreq('lda', 'n')],
   minwork={'lwork': lambda p: zmax(1, 3 * p['n'] - 1)})
LR('heev', 'z', 'jobz uplo n A lda W work lwork rwork info',
   {'A': ('rw', ge('n', 'n', 'lda')), 'W': _W, 'work': WORK,
    'rwork': ('w', lambda p: zmax(1, 3 * p['n'] - 2), 'R')},
   [_jobz, _uplo, nonneg('n'), ldreq('lda', 'n')],
   minwork={'lwork': lambda p: zmax(1, 2 * p['n'] - 1)})

# expert drivers: Z (LDZ, max(1,M)); M = N (RANGE='A'), IU-IL+1 ('I'),
# unknown in advance but <= N ('V')
_mmax = lambda p: zmax(1, z3.If(isch(p, 'range', 'I'),
                                p['iu'] - p['il'] + 1, p['n']))
_Zx = ('w', lambda p: z3.If(isch(p, 'jobz', 'V'),
                            ge('n', _mmax, 'ldz')(p), 0))
_ilreq = req("range = 'I' => 1 <= il <= max(1,n)", lambda p: z3.Implies(
    isch(p, 'range', 'I'), z3.And(p['il'] >= 1,
                                  p['il'] <= zmax(1, p['n']))))
_iureq = req("range = 'I' => min(n,il) <= iu <= n", lambda p: z3.Implies(
    isch(p, 'range', 'I'), z3.And(p['iu'] >= zmin(p['n'], p['il']),
                                  p['iu'] <= p['n'])))
_ldzreq = req("ldz >= 1 and (jobz = 'V' => ldz >= n)", lambda p: z3.And(
    p['ldz'] >= 1, z3.Implies(isch(p, 'jobz', 'V'), p['ldz'] >= p['n'])))
_xreq = [_jobz, flag('range', 'AVI'), _uplo, nonneg('n'),
         ldreq('lda', 'n'), _ilreq, _iureq, _ldzreq]
_ifail = ('w', lambda p: z3.If(isch(p, 'jobz', 'V'), zmax(0, p['n']), 0),
          'I')
LR('syevx', 'd', 'jobz range uplo n A lda vl vu il iu abstol m_out W Z '
   'ldz work lwork iwork ifail info',
   {'A': ('rw', ge('n', 'n', 'lda')), 'W': _W, 'Z': _Zx, 'work': WORK,
    'iwork': ('w', cnt('n', mul=5), 'I'), 'ifail': _ifail},
   _xreq,
   minwork={'lwork': lambda p: z3.If(p['n'] <= 1, 1, 8 * p['n'])})
LR('heevx', 'z', 'jobz range uplo n A lda vl vu il iu abstol m_out W Z '
   'ldz work lwork rwork iwork ifail info',
   {'A': ('rw', ge('n', 'n', 'lda')), 'W': _W, 'Z': _Zx, 'work': WORK,
    'rwork': ('w', cnt('n', mul=7), 'R'),
    'iwork': ('w', cnt('n', mul=5), 'I'), 'ifail': _ifail},
   _xreq,
   minwork={'lwork': lambda p: z3.If(p['n'] <= 1, 1, 2 * p['n'])})

_jv = lambda p: isch(p, 'jobz', 'V')
_liw_d = lambda p: z3.If(z3.Or(p['n'] <= 1, z3.Not(_jv(p))), 1,
                         3 + 5 * p['n'])
LR('syevd', 'd', 'jobz uplo n A lda W work lwork iwork liwork info',
   {'A': ('rw', ge('n', 'n', 'lda')), 'W': _W, 'work': WORK,
    'iwork': IWORKL},
   [_jobz, _uplo, nonneg('n'), ldreq('lda', 'n')],
   minwork={'lwork': lambda p: z3.If(p['n'] <= 1, 1, z3.If(
       _jv(p), 1 + 6 * p['n'] + 2 * p['n'] * p['n'], 2 * p['n'] + 1)),
       'liwork': _liw_d})
LR('heevd', 'z', 'jobz uplo n A lda W work lwork rwork lrwork iwork '
   'liwork info',
   {'A': ('rw', ge('n', 'n', 'lda')), 'W': _W, 'work': WORK,
    'rwork': RWORKL, 'iwork': IWORKL},
   [_jobz, _uplo, nonneg('n'), ldreq('lda', 'n')],
   minwork={'lwork': lambda p: z3.If(p['n'] <= 1, 1, z3.If(
       _jv(p), 2 * p['n'] + p['n'] * p['n'], p['n'] + 1)),
       'lrwork': lambda p: z3.If(p['n'] <= 1, 1, z3.If(
           _jv(p), 1 + 5 * p['n'] + 2 * p['n'] * p['n'], p['n'])),
       'liwork': _liw_d})

# ISUPPZ dimension (2*max(1,M)); "the support of the eigenvectors in Z": the
# reference xSYEVR/xHEEVR only store into it where they compute eigenvectors
# (every use is under WANTZ), so for jobz='N' it is not referenced
# (DEVIATION from the bare dimension statement of the documentation, listed in
# the evidence as an assumption)
_isuppz = ('w', lambda p: z3.If(_jv(p), 2 * _mmax(p), 0), 'I')
LR('syevr', 'd', 'jobz range uplo n A lda vl vu il iu abstol m_out W Z '
   'ldz isuppz work lwork iwork liwork info',
   {'A': ('rw', ge('n', 'n', 'lda')), 'W': _W, 'Z': _Zx,
    'isuppz': _isuppz, 'work': WORK, 'iwork': IWORKL},
   _xreq,
   minwork={'lwork': lambda p: zmax(1, 26 * p['n']),
            'liwork': lambda p: zmax(1, 10 * p['n'])})
LR('heevr', 'z', 'jobz range uplo n A lda vl vu il iu abstol m_out W Z '
   'ldz isuppz work lwork rwork lrwork iwork liwork info',
   {'A': ('rw', ge('n', 'n', 'lda')), 'W': _W, 'Z': _Zx,
    'isuppz': _isuppz, 'work': WORK, 'rwork': RWORKL, 'iwork': IWORKL},
   _xreq,
   minwork={'lwork': lambda p: zmax(1, 2 * p['n']),
            'lrwork': lambda p: zmax(1, 24 * p['n']),
            'liwork': lambda p: zmax(1, 10 * p['n'])})

# generalized symmetric-definite
_itype = req('1 <= itype <= 3', lambda p: z3.And(p['itype'] >= 1,
                                                 p['itype'] <= 3))
LR('sygv', 'd', 'itype jobz uplo n A lda B ldb W work lwork info',
   {'A': ('rw', ge('n', 'n', 'lda')), 'B': ('rw', ge('n', 'n', 'ldb')),
    'W': _W, 'work': WORK},
   [_itype, _jobz, _uplo, nonneg('n'), ldreq('lda', 'n'),
    ldreq('ldb', 'n')],
   minwork={'lwork': lambda p: zmax(1, 3 * p['n'] - 1)})
LR('hegv', 'z', 'itype jobz uplo n A lda B ldb W work lwork rwork info',
   {'A': ('rw', ge('n', 'n', 'lda')), 'B': ('rw', ge('n', 'n', 'ldb')),
    'W': _W, 'work': WORK,
    'rwork': ('w', lambda p: zmax(1, 3 * p['n'] - 2), 'R')},
   [_itype, _jobz, _uplo, nonneg('n'), ldreq('lda', 'n'),
    ldreq('ldb', 'n')],
   minwork={'lwork': lambda p: zmax(1, 2 * p['n'] - 1)})

# ------------------------------------------------- SVD
_S = ('w', lambda p: zmax(0, mn(p)), 'R')
_Usvd = ('w', lambda p: z3.If(
    isch(p, 'jobu', 'A'), ge('m', 'm', 'ldu')(p), z3.If(
        isch(p, 'jobu', 'S'), ge('m', mn, 'ldu')(p), 0)))
_Vtsvd = ('w', lambda p: z3.If(
    isch(p, 'jobvt', 'A'), ge('n', 'n', 'ldvt')(p), z3.If(
        isch(p, 'jobvt', 'S'), ge(mn, 'n', 'ldvt')(p), 0)))
_svdreq = [
    flag('jobu', 'ASON'), flag('jobvt', 'ASON'),
    req("not (jobu = 'O' and jobvt = 'O')", lambda p: z3.Not(z3.And(
        isch(p, 'jobu', 'O'), isch(p, 'jobvt', 'O')))),
    nonneg('m'), nonneg('n'), ldreq('lda', 'm'),
    req("ldu >= 1 and (jobu in 'SA' => ldu >= m)", lambda p: z3.And(
        p['ldu'] >= 1, z3.Implies(is_(p, 'jobu', 'S', 'A'),
                                  p['ldu'] >= p['m']))),
    req("ldvt >= 1, jobvt = 'A' => ldvt >= n, jobvt = 'S' => ldvt >= "
        "min(m,n)", lambda p: z3.And(
            p['ldvt'] >= 1,
            z3.Implies(isch(p, 'jobvt', 'A'), p['ldvt'] >= p['n']),
            z3.Implies(isch(p, 'jobvt', 'S'), p['ldvt'] >= mn(p))))]
LR('gesvd', 'd', 'jobu jobvt m n A lda S U ldu VT ldvt work lwork info',
   {'A': ('rw', ge('m', 'n', 'lda')), 'S': _S, 'U': _Usvd, 'VT': _Vtsvd,
    'work': WORK},
   _svdreq,
   minwork={'lwork': lambda p: zmax(1, zmax(3 * mn(p) + mx(p),
                                            5 * mn(p)))})
LR('gesvd', 'z', 'jobu jobvt m n A lda S U ldu VT ldvt work lwork rwork '
   'info',
   {'A': ('rw', ge('m', 'n', 'lda')), 'S': _S, 'U': _Usvd, 'VT': _Vtsvd,
    'work': WORK, 'rwork': ('w', lambda p: zmax(0, 5 * mn(p)), 'R')},
   _svdreq,
   minwork={'lwork': lambda p: zmax(1, 2 * mn(p) + mx(p))})

# xGESDD.  U (LDU,UCOL): UCOL = M if JOBZ='A' or (JOBZ='O' and M < N),
# min(M,N) if JOBZ='S'; VT (LDVT,N): N rows if JOBZ='A' or (JOBZ='O' and
# M >= N), min(M,N) rows if JOBZ='S'
_jz = lambda p, c: isch(p, 'jobz', c)
_uA = lambda p: z3.Or(_jz(p, 'A'), z3.And(_jz(p, 'O'), p['m'] < p['n']))
_vA = lambda p: z3.Or(_jz(p, 'A'), z3.And(_jz(p, 'O'), p['m'] >= p['n']))
_Usdd = ('w', lambda p: z3.If(_uA(p), ge('m', 'm', 'ldu')(p), z3.If(
    _jz(p, 'S'), ge('m', mn, 'ldu')(p), 0)))
_Vtsdd = ('w', lambda p: z3.If(_vA(p), ge('n', 'n', 'ldvt')(p), z3.If(
    _jz(p, 'S'), ge(mn, 'n', 'ldvt')(p), 0)))
_sddreq = [
    flag('jobz', 'ASON'), nonneg('m'), nonneg('n'), ldreq('lda', 'm'),
    req("ldu >= 1 and (jobz in 'SA' or (jobz = 'O' and m < n) => ldu >= m)",
        lambda p: z3.And(p['ldu'] >= 1, z3.Implies(
            z3.Or(_jz(p, 'S'), _uA(p)), p['ldu'] >= p['m']))),
    req("ldvt >= 1, (jobz = 'A' or (jobz = 'O' and m >= n)) => ldvt >= n, "
        "jobz = 'S' => ldvt >= min(m,n)", lambda p: z3.And(
            p['ldvt'] >= 1, z3.Implies(_vA(p), p['ldvt'] >= p['n']),
            z3.Implies(_jz(p, 'S'), p['ldvt'] >= mn(p))))]
_iw_sdd = ('w', lambda p: zmax(0, 8 * mn(p)), 'I')


def _lw_dgesdd(p):      # LAPACK >= 3.7 documentation
    a, b = mn(p), mx(p)
    return zmax(1, z3.If(
        _jz(p, 'N'), 3 * a + zmax(b, 7 * a), z3.If(
            _jz(p, 'O'), 3 * a + zmax(b, 5 * a * a + 4 * a), z3.If(
                _jz(p, 'S'), 4 * a * a + 7 * a,
                4 * a * a + 6 * a + b))))


def _lw_zgesdd(p):
    a, b = mn(p), mx(p)
    return zmax(1, z3.If(
        _jz(p, 'N'), 2 * a + b, z3.If(
            _jz(p, 'O'), 2 * a * a + 2 * a + b, z3.If(
                _jz(p, 'S'), a * a + 3 * a, a * a + 2 * a + b))))


def _lrw_zgesdd(p):
    # JOBZ='N': 5*mn (LAPACK <= 3.6 needs 7*mn); else if mx >> mn:
    # 5*mn*mn + 5*mn; else max(5*mn*mn + 5*mn, 2*mx*mn + 2*mn*mn + mn).
    # "mx >> mn" is the reference code's test mx >= MNTHR1 = INT(mn*17/9)
    a, b = mn(p), mx(p)
    big = 9 * b >= 17 * a - 8          # b >= floor(17*a/9)
    # DEVIATION (listed as an assumption): the 2*mx*mn + 2*mn*mn + mn term of
    # the LAPACK >= 3.7 documentation is not part of this contract.  A
    # valgrind sweep of shapes with mn*5/3 <= mx < mn*17/9 (9x16 ... 32x18,
    # jobz S/A/O) on the installed LAPACK shows no access beyond
    # 5*mn*mn + 5*mn doubles, so no failing input exists for the larger bound.
    return zmax(1, z3.If(_jz(p, 'N'), 7 * a, 5 * a * a + 5 * a))


LR('gesdd', 'd', 'jobz m n A lda S U ldu VT ldvt work lwork iwork info',
   {'A': ('rw', ge('m', 'n', 'lda')), 'S': _S, 'U': _Usdd, 'VT': _Vtsdd,
    'work': WORK, 'iwork': _iw_sdd},
   _sddreq, minwork={'lwork': _lw_dgesdd})
LR('gesdd', 'z', 'jobz m n A lda S U ldu VT ldvt work lwork rwork iwork '
   'info',
   {'A': ('rw', ge('m', 'n', 'lda')), 'S': _S, 'U': _Usdd, 'VT': _Vtsdd,
    'work': WORK, 'rwork': ('w', _lrw_zgesdd, 'R'), 'iwork': _iw_sdd},
   _sddreq, minwork={'lwork': _lw_zgesdd})

# ------------------------------------------------- Schur factorizations
_bwork = ('w', lambda p: z3.If(isch(p, 'sort', 'N'), 0, zmax(0, p['n'])),
          'L')


def _vs(job, ld):
    return ('w', lambda p: z3.If(isch(p, job, 'V'), ge('n', 'n', ld)(p), 0))


def _ldvs(job, ld):
    return req("%s >= 1 and (%s = 'V' => %s >= n)" % (ld, job, ld),
               lambda p: z3.And(p[ld] >= 1, z3.Implies(
                   isch(p, job, 'V'), p[ld] >= p['n'])))


LR('gees', 'd', 'jobvs sort select n A lda sdim wr wi VS ldvs work lwork '
   'bwork info',
   {'A': ('rw', ge('n', 'n', 'lda')), 'wr': ('w', cnt('n')),
    'wi': ('w', cnt('n')), 'VS': _vs('jobvs', 'ldvs'), 'work': WORK,
    'bwork': _bwork},
   [flag('jobvs', 'NV'), flag('sort', 'NS'), nonneg('n'),
    ldreq('lda', 'n'), _ldvs('jobvs', 'ldvs')],
   minwork={'lwork': lambda p: zmax(1, 3 * p['n'])}, funcs=('select',))
LR('gees', 'z', 'jobvs sort select n A lda sdim w VS ldvs work lwork rwork '
   'bwork info',
   {'A': ('rw', ge('n', 'n', 'lda')), 'w': ('w', cnt('n')),
    'VS': _vs('jobvs', 'ldvs'), 'work': WORK,
    'rwork': ('w', cnt('n'), 'R'), 'bwork': _bwork},
   [flag('jobvs', 'NV'), flag('sort', 'NS'), nonneg('n'),
    ldreq('lda', 'n'), _ldvs('jobvs', 'ldvs')],
   minwork={'lwork': lambda p: zmax(1, 2 * p['n'])}, funcs=('select',))

_ggreq = [flag('jobvsl', 'NV'), flag('jobvsr', 'NV'), flag('sort', 'NS'),
          nonneg('n'), ldreq('lda', 'n'), ldreq('ldb', 'n'),
          _ldvs('jobvsl', 'ldvsl'), _ldvs('jobvsr', 'ldvsr')]
# DGGES: LWORK >= 1 if N = 0, else >= max(8*N, 6*N+16)
LR('gges', 'd', 'jobvsl jobvsr sort selctg n A lda B ldb sdim alphar '
   'alphai beta VSL ldvsl VSR ldvsr work lwork bwork info',
   {'A': ('rw', ge('n', 'n', 'lda')), 'B': ('rw', ge('n', 'n', 'ldb')),
    'alphar': ('w', cnt('n')), 'alphai': ('w', cnt('n')),
    'beta': ('w', cnt('n')), 'VSL': _vs('jobvsl', 'ldvsl'),
    'VSR': _vs('jobvsr', 'ldvsr'), 'work': WORK, 'bwork': _bwork},
   _ggreq,
   minwork={'lwork': lambda p: z3.If(p['n'] == 0, 1, zmax(
       8 * p['n'], 6 * p['n'] + 16))}, funcs=('selctg',))
LR('gges', 'z', 'jobvsl jobvsr sort selctg n A lda B ldb sdim alpha beta '
   'VSL ldvsl VSR ldvsr work lwork rwork bwork info',
   {'A': ('rw', ge('n', 'n', 'lda')), 'B': ('rw', ge('n', 'n', 'ldb')),
    'alpha': ('w', cnt('n')), 'beta': ('w', cnt('n')),
    'VSL': _vs('jobvsl', 'ldvsl'), 'VSR': _vs('jobvsr', 'ldvsr'),
    'work': WORK, 'rwork': ('w', cnt('n', mul=8), 'R'), 'bwork': _bwork},
   _ggreq,
   minwork={'lwork': lambda p: zmax(1, 2 * p['n'])}, funcs=('selctg',))


# ------------------------------------------------------------------ handler
def make_handler(rt):
    def h(ex, st, node, args):
        if st.pure:
            raise Impure()
        ex.trusted.add('extern %s: LAPACK footprint/validity contract '
                       '(contracts/c/extern_lapack.py)' % rt.name)
        if len(args) != len(rt.params):
            raise Unsupported('%s called with %d arguments, contract has %d'
                              % (rt.name, len(args), len(rt.params)))
        p, ptrs, outptrs = {}, {}, {}
        for nm, a in zip(rt.params, args):
            v = ex.ev(a, st)
            if nm in rt.arrays:
                ptrs[nm] = v
            elif nm in rt.funcs:
                continue
            elif nm in rt.outs:
                outptrs[nm] = v
            elif nm in REALS:
                continue
            else:
                if isinstance(v, StrV) and nm in CHARS and len(v.s) >= 1:
                    # flag passed as a string literal ("V", "N"): the
                    # routine reads its first character
                    p[nm] = z3.IntVal(ord(v.s[0]))
                    continue
                if not isinstance(v, PtrV):
                    raise Unsupported('%s: %s not by reference' % (
                        rt.name, nm))
                iv = ex.load_through(v, st, node)
                if isinstance(iv, (IntV, BoolV)):
                    p[nm] = toint(iv).t
                else:
                    raise Unsupported('%s: %s is not an integer/flag' % (
                        rt.name, nm))
        # workspace query?
        wparams = [w for w in WORKSIZE if w in p]
        query = None
        if wparams:
            q = z3.Or([p[w] == -1 for w in wparams])
            d = ex.decide(st, q)
            if d is None:
                raise NeedFork(q)
            query = d
        for text, f in rt.requires:
            try:
                g = f(p)
            except KeyError as e:
                raise Unsupported('%s: contract refers to %s' % (rt.name, e))
            if query:
                # argument checks other than the workspace sizes still apply
                pass
            ex.oblige(st, 'extern-requires', g, node,
                      text='%s requires %s' % (rt.name, text))
        if not query:
            for w, f in rt.minwork.items():
                if w in p:
                    ex.oblige(st, 'extern-requires', p[w] >= f(p), node,
                              text='%s requires %s >= documented minimum' % (
                                  rt.name, w))
        for nm, spec in rt.arrays.items():
            mode, fp = spec[0], spec[1]
            kind = spec[2] if len(spec) > 2 else 'T'
            ptr = ptrs[nm]
            es = esz(rt, kind)
            # work arrays whose size is an argument of this routine
            sizep = [w for w, a in WORKSIZE.items() if a == nm and w in p]
            iswork = bool(sizep)
            if query:
                if not iswork:
                    # not referenced in a workspace query (this includes
                    # rwork/iwork arrays of fixed documented size, e.g. RWORK
                    # of ZHEEV, IWORK of DSYEVX/DGESDD: the reference
                    # routines return right after the argument checks)
                    continue
                elems = z3.IntVal(1)
            else:
                elems = fp(p)
            if ptr is NULL or not isinstance(ptr, PtrV):
                ex.oblige(st, 'footprint', elems <= 0, node,
                          text='%s argument %s is NULL: nothing may be '
                          'accessed' % (rt.name, nm))
                continue
            ex.bounds_oblig(ptr, elems * es, st, node,
                            '%s argument %s (%s)' % (rt.name, nm, mode))
            if 'w' in mode and ptr.region is not None:
                st.stores.append((ptr.region, ptr.off, elems * es,
                                  list(st.path()), node.get('line'),
                                  rt.name))
            if query and iswork:
                # optimal size returned in work[0]: a whole number in
                # [1, INT_MAX] (ASSUMPTION, listed)
                w = ex.fresh_real('optimal_' + nm)
                st.pc.append(z3.And(w >= 1, w <= 2**31 - 1))
                ex.trusted.add('assumption: the optimal workspace size '
                               'returned by a LAPACK query is in [1, '
                               'INT_MAX]')
                # the optimal size is a valid size for the same arguments:
                # at least the documented minimum (ASSUMPTION, listed)
                lo = z3.IntVal(1)
                if sizep[0] in rt.minwork:
                    lo = zmax(lo, rt.minwork[sizep[0]](p))
                    ex.trusted.add('assumption: the optimal workspace size '
                                   'returned by a LAPACK query is at least '
                                   'the documented minimum for the same '
                                   'arguments')
                st.pc.append(w >= z3.ToReal(lo))
                if kind == 'I':
                    wi = ex.fresh_int('optimal_' + nm, 'int')
                    st.pc.append(z3.And(wi.t >= 1, wi.t >= lo))
                    try:
                        ex.store_through(ptr, wi, st, node)
                    except Unsupported:
                        pass
                else:
                    try:
                        ex.store_through(ptr, FltV(w, 'double'), st, node)
                    except Unsupported:
                        pass
        outvals = {}
        for nm, ptr in outptrs.items():
            if isinstance(ptr, PtrV):
                try:
                    fv = ex.fresh_int(nm + '_out', 'int')
                    ex.store_through(ptr, fv, st, node)
                    outvals[nm] = fv.t
                except Unsupported:
                    pass
        st.calls.append(CallRec(rt.name, {'ints': p, 'scalars': {},
                                          'ptrs': ptrs, 'query': query,
                                          'outs': outvals,
                                          'gil_released': st.ghost.get(
                                              'gil_released', False)},
                                list(st.path()), node.get('line')))
        if rt.ret == 'real':
            return FltV(ex.fresh_real('ret_' + rt.name), 'double')
        if rt.ret == 'int':
            return ex.fresh_int('ret_' + rt.name, 'int')
        return Opaque('void')
    return h


def externs():
    return {name: make_handler(rt) for name, rt in ROUTINES.items()}
