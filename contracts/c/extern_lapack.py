"""Assumed contracts of the Fortran LAPACK routines called by src/C/lapack.c
(netlib LAPACK documentation).  TRUSTED BASE.

Entry: LR(base, prefixes, params, arrays, requires, lwork=..., ...)

  params    parameter names in calling order (all passed by reference)
  arrays    name -> (mode, footprint fn(p) in elements[, element kind])
            element kind: 'T' routine's data type (default), 'R' real (8
            bytes also in z-routines), 'I' Fortran INTEGER (4 bytes),
            'L' LOGICAL (4 bytes)
  requires  argument-validity conditions (violation => XERBLA)
  workspace parameters (lwork, lrwork, liwork): value -1 in ANY of them is a
            workspace query: only the first element of each work array is
            written (with the optimal size) and no other array is accessed;
            otherwise the work array must hold that many elements and the
            documented minimum (minwork[name](p)) is required.
  outs      scalar outputs (info, m, sdim, rank ...): fresh values

Footprint helpers as in extern_blas.py.
"""
import z3
from engine.cvc.exec import (IntV, BoolV, FltV, PtrV, Opaque, NULL, CallRec,
                             Unsupported, toint, Impure, StructV, Region,
                             NeedFork)
from contracts.c.extern_blas import (zabs, zmax, zmin, vec, ge, ch, is_,
                                     req, nonneg)

ROUTINES = {}
CHARS = {'trans', 'transa', 'transb', 'uplo', 'diag', 'side', 'jobz',
         'range', 'jobu', 'jobvt', 'vect', 'job', 'compq', 'norm', 'direct',
         'storev', 'sort', 'sense', 'jobvl', 'jobvr', 'jobvs', 'jobvsl',
         'jobvsr', 'itype_c', 'fact', 'equed', 'balanc', 'compz', 'howmny',
         'eigsrc', 'initv'}
WORKSIZE = {'lwork': 'work', 'lrwork': 'rwork', 'liwork': 'iwork'}
REALS = {'vl', 'vu', 'abstol', 'rcond', 'anorm', 'alpha_r'}
OUT_SCALARS = {'info', 'sdim', 'rank', 'mfound', 'm_out', 'ns'}


class LRoutine:
    def __init__(self, name, params, arrays, requires=(), minwork=None,
                 elsize=8, outs=(), ret=None, funcs=()):
        self.name = name
        self.params = params.split()
        self.arrays = arrays
        self.requires = list(requires)
        self.minwork = minwork or {}
        self.elsize = elsize
        self.outs = set(outs) | (OUT_SCALARS & set(self.params))
        self.ret = ret
        self.funcs = set(funcs)      # parameters that are function pointers
        self.when = None


def LR(base, prefixes, params, arrays, requires=(), minwork=None, outs=(),
       names=None, ret=None, funcs=()):
    for i, pf in enumerate(prefixes):
        nm = (names[i] if names else pf + base) + '_'
        ROUTINES[nm] = LRoutine(nm, params, arrays, requires, minwork,
                                16 if pf == 'z' else 8, outs, ret, funcs)


def esz(rt, kind):
    return {'T': rt.elsize, 'R': 8, 'I': 4, 'L': 4}[kind]


def mn(p):
    return zmin(p['m'], p['n'])


# --------------------------------------------------------------- examples
# (the remaining routines follow the same pattern)
LR('getrf', 'dz', 'm n A lda ipiv info',
   {'A': ('rw', ge('m', 'n', 'lda')),
    'ipiv': ('w', lambda p: zmax(0, mn(p)), 'I')},
   [nonneg('m'), nonneg('n'),
    req('lda >= max(1,m)', lambda p: p['lda'] >= zmax(1, p['m']))])

LR('potrf', 'dz', 'uplo n A lda info',
   {'A': ('rw', ge('n', 'n', 'lda'))},
   [req("uplo in 'UL'", lambda p: is_(p, 'uplo', 'U', 'L')), nonneg('n'),
    req('lda >= max(1,n)', lambda p: p['lda'] >= zmax(1, p['n']))])

LR('gels', 'dz', 'trans m n nrhs A lda B ldb work lwork info',
   {'A': ('rw', ge('m', 'n', 'lda')),
    'B': ('rw', ge(lambda p: zmax(p['m'], p['n']), 'nrhs', 'ldb')),
    'work': ('w', lambda p: zmax(1, p['lwork']))},
   [req("trans in 'NTC'", lambda p: is_(p, 'trans', 'N', 'T', 'C')),
    nonneg('m'), nonneg('n'), nonneg('nrhs'),
    req('lda >= max(1,m)', lambda p: p['lda'] >= zmax(1, p['m'])),
    req('ldb >= max(1,m,n)', lambda p: p['ldb'] >= zmax(1, zmax(
        p['m'], p['n'])))],
   minwork={'lwork': lambda p: zmax(1, mn(p) + zmax(mn(p), p['nrhs']))})


# ------------------------------------------------------------------ handler
def make_handler(rt):
    def h(ex, st, node, args):
        if st.pure:
            raise Impure()
        ex.trusted.add('extern %s: LAPACK footprint/validity contract '
                       '(contracts/c/extern_lapack.py)' % rt.name)
        if len(args) != len(rt.params):
            raise Unsupported('%s called with %d arguments, contract has %d'
                              % (rt.name, len(args), len(rt.params)))
        p, ptrs, outptrs = {}, {}, {}
        for nm, a in zip(rt.params, args):
            v = ex.ev(a, st)
            if nm in rt.arrays:
                ptrs[nm] = v
            elif nm in rt.funcs:
                continue
            elif nm in rt.outs:
                outptrs[nm] = v
            elif nm in REALS:
                continue
            else:
                if not isinstance(v, PtrV):
                    raise Unsupported('%s: %s not by reference' % (
                        rt.name, nm))
                iv = ex.load_through(v, st, node)
                if isinstance(iv, (IntV, BoolV)):
                    p[nm] = toint(iv).t
                else:
                    raise Unsupported('%s: %s is not an integer/flag' % (
                        rt.name, nm))
        # workspace query?
        wparams = [w for w in WORKSIZE if w in p]
        query = None
        if wparams:
            q = z3.Or([p[w] == -1 for w in wparams])
            d = ex.decide(st, q)
            if d is None:
                raise NeedFork(q)
            query = d
        for text, f in rt.requires:
            try:
                g = f(p)
            except KeyError as e:
                raise Unsupported('%s: contract refers to %s' % (rt.name, e))
            if query:
                # argument checks other than the workspace sizes still apply
                pass
            ex.oblige(st, 'extern-requires', g, node,
                      text='%s requires %s' % (rt.name, text))
        if not query:
            for w, f in rt.minwork.items():
                if w in p:
                    ex.oblige(st, 'extern-requires', p[w] >= f(p), node,
                              text='%s requires %s >= documented minimum' % (
                                  rt.name, w))
        for nm, spec in rt.arrays.items():
            mode, fp = spec[0], spec[1]
            kind = spec[2] if len(spec) > 2 else 'T'
            ptr = ptrs[nm]
            es = esz(rt, kind)
            iswork = nm in WORKSIZE.values()
            if query:
                if not iswork:
                    continue      # not referenced in a workspace query
                elems = z3.IntVal(1)
            else:
                elems = fp(p)
            if ptr is NULL or not isinstance(ptr, PtrV):
                ex.oblige(st, 'footprint', elems <= 0, node,
                          text='%s argument %s is NULL: nothing may be '
                          'accessed' % (rt.name, nm))
                continue
            ex.bounds_oblig(ptr, elems * es, st, node,
                            '%s argument %s (%s)' % (rt.name, nm, mode))
            if 'w' in mode and ptr.region is not None:
                st.stores.append((ptr.region, ptr.off, elems * es,
                                  list(st.path()), node.get('line'),
                                  rt.name))
            if query and iswork:
                # optimal size returned in work[0]: a whole number in
                # [1, INT_MAX] (ASSUMPTION, listed)
                w = ex.fresh_real('optimal_' + nm)
                st.pc.append(z3.And(w >= 1, w <= 2**31 - 1))
                ex.trusted.add('assumption: the optimal workspace size '
                               'returned by a LAPACK query is in [1, '
                               'INT_MAX]')
                if kind == 'I':
                    wi = ex.fresh_int('optimal_' + nm, 'int')
                    st.pc.append(z3.And(wi.t >= 1))
                    try:
                        ex.store_through(ptr, wi, st, node)
                    except Unsupported:
                        pass
                else:
                    try:
                        ex.store_through(ptr, FltV(w, 'double'), st, node)
                    except Unsupported:
                        pass
        for nm, ptr in outptrs.items():
            if isinstance(ptr, PtrV):
                try:
                    ex.store_through(ptr, ex.fresh_int(nm + '_out', 'int'),
                                     st, node)
                except Unsupported:
                    pass
        st.calls.append(CallRec(rt.name, {'ints': p, 'scalars': {},
                                          'ptrs': ptrs, 'query': query,
                                          'gil_released': st.ghost.get(
                                              'gil_released', False)},
                                list(st.path()), node.get('line')))
        if rt.ret == 'real':
            return FltV(ex.fresh_real('ret_' + rt.name), 'double')
        if rt.ret == 'int':
            return ex.fresh_int('ret_' + rt.name, 'int')
        return Opaque('void')
    return h


def externs():
    return {name: make_handler(rt) for name, rt in ROUTINES.items()}
