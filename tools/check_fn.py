#!/usr/bin/env python3-vt
"""Developer tool: run cvc on single functions and print every obligation that
is not proved.   usage: tools/check_fn.py <cfile> <mode> <fn> [<fn>...] [-v]
   mode: blas-wrapper | spec:<module>"""
import sys, os
sys.path.insert(0, os.path.dirname(os.path.dirname(os.path.abspath(__file__))))
from engine import cside

def main():
    args = [a for a in sys.argv[1:] if not a.startswith('-')]
    verbose = '-v' in sys.argv
    nov = '--no-overflow' in sys.argv
    cfile, mode = args[0], args[1]
    for fn in args[2:]:
        t = {'cfile': cfile, 'fn': fn, 'mode': mode}
        for a in sys.argv:
            if a.startswith('--timeout='):
                t['timeout_ms'] = int(a.split('=')[1])
        if mode.startswith('spec:'):
            t['mode'] = 'spec'
            t['module'] = mode[5:]
        r = cside.run_task(t)
        print('==', fn, r['status'], r.get('reason') or '', 'paths', r.get('paths'),
              'has_spec', r.get('has_spec'), '%.1fs' % r.get('wall_s', 0))
        if r.get('post'):
            print('   paths:', r['post'].get('paths'), 'calls:', r['post'].get('calls'))
        n = 0
        for o in r['obligations']:
            n += 1
            if o['status'] != 'proved' or verbose:
                if nov and o['kind'] == 'nooverflow':
                    continue
                print('  ', o['status'], o['kind'], 'line', o['line'], '|', o['text'][:160], '| instances', o['instances'])
                if o.get('refuted_choices'):
                    print('      choices:', o['refuted_choices'])
                if o['status'] == 'refuted' and o.get('model'):
                    m = {k: v for k, v in o['model'].items() if not k.startswith(('issp', 'PyExc')) and '.obj.' not in k}
                    print('      model:', m)
        print('  ', n, 'obligation sites,', sum(1 for o in r['obligations'] if o['status'] == 'proved'), 'proved')

main()
