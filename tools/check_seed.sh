#!/bin/bash
# usage: tools/check_seed.sh <seed id> <prop> [<prop>...]
# applies /verif/seeded/<id>/patch.diff to /repo, runs the given checks
# (evidence to a scratch dir), reverts.  The demonstration is NOT re-run
# (tools/eval_seed.sh does that once when the seed is taken in).
set -u
ID=$1; shift
DST=/verif/seeded/$ID
cd /repo || exit 3
if ! git diff --quiet; then echo "repo not clean"; exit 3; fi
if ! git apply --check $DST/patch.diff 2>/dev/null; then echo "SEED $ID: patch does not apply"; exit 2; fi
git apply $DST/patch.diff
EV=$(mktemp -d); RES=""
for PR in "$@"; do
  OUT=$(cd /verif && VERIF_EVIDENCE_DIR=$EV ./vf check $PR --tier quick 2>&1); CODE=$?
  echo "$OUT" > $DST/check.$PR.out
  V=$(echo "$OUT" | grep -c "^VIOLATION")
  echo "SEED $ID check $PR: exit=$CODE violations=$V  $(echo "$OUT" | grep -E "^  obligation" | head -2 | cut -c1-200 | tr '\n' '|')"
  RES="$RES $PR:exit=$CODE:viol=$V"
done
git -C /repo checkout -- .
rm -rf $EV
find /verif/replays -name '*.json' -delete 2>/dev/null
echo "$ID recheck:$RES" >> /verif/seeded/RESULTS.txt
