#!/usr/bin/env python3-vt
"""Developer tool (never run by a registered check): runs a C-side property,
replays every refuted obligation that is not yet in known_findings.json and
prints candidate entries for the confirmed ones.
usage: tools/scan_findings.py C19 [kind]"""
import sys, os, json, importlib
ROOT = os.path.dirname(os.path.dirname(os.path.abspath(__file__)))
sys.path.insert(0, ROOT)
from engine.verdict import Report, load_known
from engine import replay_wrapper, replay_c

def main():
    prop = sys.argv[1]
    kinds = sys.argv[2:] or None
    rep = Report(prop, 'quick', 0)
    mod = importlib.import_module('engine.checks.' + prop.lower())
    mod.run(rep, 'quick', 0)
    known = {k['obligation'] for k in load_known() if k['property'] == prop}
    envs = {}
    out, unconf = [], []
    for ob in rep.obs:
        if ob.status != 'refuted' or ob.oid in known:
            continue
        if kinds and ob.kind not in kinds:
            continue
        try:
            conf, info = replay_wrapper.replay_obligation(ob, ob.meta, '/tmp/x', envs)
        except Exception as e:
            conf, info = False, {'error': repr(e)}
        if conf:
            w = info.get('call')
            evid = (info.get('ubsan') or info.get('interposer_findings') or [''])[0]
            out.append({'property': prop, 'status': 'open', 'obligation': ob.oid,
                        'cause': ob.cause or ob.kind,
                        'what': '%s: %s' % (ob.where, ob.text),
                        'witness': w, 'observed': str(evid)[:300]})
        else:
            unconf.append((ob.oid, info.get('reason') or info.get('note') or str(info.get('result'))[:200]))
        print('.', end='', flush=True)
    for e in envs.values():
        e.close()
    print()
    json.dump(out, open('/tmp/findings_%s.json' % prop, 'w'), indent=1)
    print(len(out), 'confirmed ->', '/tmp/findings_%s.json' % prop)
    print(len(unconf), 'NOT confirmed:')
    for u in unconf:
        print('   ', u[0], '|', u[1])
main()
