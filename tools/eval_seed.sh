#!/bin/bash
# usage: tools/eval_seed.sh <src dir with patch.diff demo.py meta.json> <seed id> <prop> [<prop>...]
# 1. confirms the demonstration (PASS without, FAIL with the change) on scratch overlays
# 2. applies the change to /repo, runs the given checks, reverts
set -u
SRC=$1; ID=$2; shift 2
DST=/verif/seeded/$ID
mkdir -p $DST && cp $SRC/patch.diff $SRC/demo.py $SRC/meta.json $DST/ 2>/dev/null
cd /repo || exit 3
if ! git diff --quiet; then echo "repo not clean"; exit 3; fi
if ! git apply --check $DST/patch.diff 2>/dev/null; then echo "SEED $ID: patch does not apply to current HEAD"; exit 2; fi
D0=$(mktemp -d); D1=$(mktemp -d)
python3 /verif/engine/overlay.py $D0 >/dev/null
(cd /tmp && PYTHONPATH=$D0 timeout 900 /venv/bin/python $DST/demo.py >$DST/demo.base.out 2>&1); B=$?
if grep -q "^FAIL" $DST/demo.base.out; then B=1; fi
git apply $DST/patch.diff
python3 /verif/engine/overlay.py $D1 >/dev/null
(cd /tmp && PYTHONPATH=$D1 timeout 900 /venv/bin/python $DST/demo.py >$DST/demo.patched.out 2>&1); P=$?
if grep -q "^FAIL" $DST/demo.patched.out; then P=1; fi
(cd /repo && PYTHONPATH=$D1 /venv/bin/python -m pytest -q -p no:cacheprovider --timeout=900 tests 2>&1 | grep -E "^[.sFEx]+ " | tail -1 > $DST/suite.patched.out)
rm -rf $D0 $D1
echo "SEED $ID: demo base exit=$B patched exit=$P suite: $(cat $DST/suite.patched.out)"
RES=""
EV=$(mktemp -d)
for PR in "$@"; do
  OUT=$(cd /verif && VERIF_EVIDENCE_DIR=$EV ./vf check $PR --tier quick 2>&1)
  CODE=$?
  echo "$OUT" > $DST/check.$PR.out
  V=$(echo "$OUT" | grep -c "^VIOLATION")
  echo "  check $PR: exit=$CODE violations=$V  $(echo "$OUT" | grep -E "^  obligation" | head -3 | cut -c1-160 | tr '\n' '|')"
  RES="$RES $PR:exit=$CODE:viol=$V"
done
git -C /repo checkout -- .
rm -rf $EV
find /verif/replays -name '*.json' -delete
echo "$ID base=$B patched=$P checks:$RES" >> /verif/seeded/RESULTS.txt
