#!/usr/bin/env python3-vt
"""Developer tool: run pyvc on one function/scenario and print non-proved
obligations.  usage: tools/check_py.py <pyfile> <specmodule> <function> [scenario] [-v]"""
import sys, os, importlib
sys.path.insert(0, os.path.dirname(os.path.dirname(os.path.abspath(__file__))))
from engine.pyvc import driver

def main():
    args = [a for a in sys.argv[1:] if not a.startswith('-')]
    v = '-v' in sys.argv
    pyfile, specmod, fn = args[:3]
    m = importlib.import_module(specmod)
    spec = m.FUNCS[fn]
    scs = spec['scenarios']
    names = args[3:] or list(scs)
    for sc in names:
        r = driver.verify(pyfile, spec.get('function', fn), m.L, spec['setup'](scs[sc]), spec['on_outcomes'],
                          config=spec.get('config'), scenario=sc)
        print('==', fn, sc, r['status'], (r.get('reason') or '')[-1500:], 'paths', r['paths'],
              '%.1fs' % r.get('wall_s', 0), 'checks', r.get('checks'))
        print('   summary:', r.get('summary'))
        for o in r['obligations']:
            if o['status'] != 'proved' or v:
                print('  ', o['status'], o['kind'], 'line', o['line'], '|', o['text'][:170], '| inst', o['instances'])
                if o['status'] == 'refuted' and o.get('model') is not None:
                    print('      model:', {k: v_ for k, v_ in list(o['model'].items())[:40]})
        print('  ', len(r['obligations']), 'sites,', sum(1 for o in r['obligations'] if o['status'] == 'proved'), 'proved')
        if r.get('notes'): print('   notes:', r['notes'][:30])
        if r.get('unmodelled'): print('   unmodelled:', r['unmodelled'])
main()
