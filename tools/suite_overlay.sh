#!/bin/sh
# Run the repository's unedited test suite against an overlay build of the
# CURRENT working tree of /repo (the pinned command imports the installed
# wheel and cannot notice edits of /repo; see DESIGN 2.7).
D=$(mktemp -d)
trap 'rm -rf "$D"' EXIT
python3 /verif/engine/overlay.py "$D" >/dev/null || { echo "overlay build failed"; exit 3; }
cd /repo && PYTHONPATH="$D" /venv/bin/python -m pytest -q -p no:cacheprovider --timeout=900 tests 2>&1 | grep -E "^[.sFEx]+ |passed|failed|error" | tail -3
